HOOK_COMMITS = []
NOT_APPLICABLE = {}
TEXT = {
    "C17": {
        "technique": "bounded exhaustive enumeration + rapid edit-sequence generation against a byte-splice reference model",
        "level": "Exploration: every single edit on every document of <=4 (quick) / <=6 (thorough) characters over {a,LF} with every ordered range up to 2 beyond the document and 5 replacement texts is enumerated completely, and rapid generates long multi-byte documents with sequences of up to 40 open/full-replace/incremental edits including out-of-range positions; after every step Document.String() is compared with an independent byte-splice model using LSP clamping. This is the right level because the document type is a pure function of the edit history and small documents already exercise every branch (insert/delete/overwrite/whole-document, clamping).",
        "note": "Trusted: the byte-splice model and its clamping rule (line beyond end -> end of document, column beyond line -> line end). Columns are bytes at rune boundaries; ranges are ordered as LSP requires. Does not prove absence for documents larger than the enumerated bound.",
    },
}
