HOOK_COMMITS = ["0c69e81"]
NOT_APPLICABLE = {}
TEXT = {
    "C01": {
        "technique": "rapid string generators + full scalar-value enumeration over compiled sink fixtures, metamorphic oracle through an HTML5 tokenizer",
        "level": "Exploration: 41 fixture placements covering every sink kind of the quantifier (text incl. RCDATA and control flow, string attributes incl. conditional, spread string/*string/KeyValue, class entries in every container form, style results, href/action, JSON script id/type/nonce, script nonces) are generated with /repo's generator and compiled at check time; each is rendered with a benign reference string and with generated strings (token sequences over an HTML-adversarial alphabet, every Unicode scalar value in the thorough tier, invalid UTF-8, arbitrary strings) and golang.org/x/net/html's tokenizer must see identical structure with the string verbatim where the reference was. Right level: the escaper is per-sink code, so per-sink exhaustive-by-character plus random sequences is what reveals a missing or wrong escape.",
        "note": "Trusted: x/net/html tokenizer as the HTML5 tokenizer (its CR->LF and RCDATA NUL->U+FFFD normalisations applied to expectations); the fixtures as representatives of 'all surrounding markup' (generated-program surroundings are covered by C02's check). For style/href the expected value is the sanitiser's result.",
    },
    "C04": {
        "technique": "bounded exhaustive enumeration + rapid mutation of XSS vectors against an independent WHATWG scheme extractor; go/types for the typing clause",
        "level": "Exploration: all sequences of <=3 (quick) / <=5 (thorough, 24M) tokens over a 30-token adversarial alphabet and all strings of <=5/<=7 characters over {a,A,:,/,\\,TAB,space,?} are enumerated completely; rapid adds long strings and mutated XSS vectors; templ.URL's result must be the input or the failure URL and may be the input only if the independent extractor sees no scheme or an allow-listed one; the rendered href/action (compiled fixtures) must tokenize to one attribute with that value. Typing clause: 112 generated templates (element x attribute position x expression type) must be rejected by go/types for plain strings and accepted for SafeURL.",
        "note": "Trusted: oracle/urlscheme as the browser's scheme detection; one-directional oracle (over-rejection allowed). go/types with the source importer stands in for the compiler.",
    },
    "C05": {
        "technique": "bounded exhaustive enumeration + rapid shaped values against an independent CSS Syntax 3 tokenizer/parser, function level and through compiled css-component / style-attribute fixtures",
        "level": "Exploration: values = all sequences of <=3 (quick) / <=4 (thorough) tokens over a 29-token CSS-adversarial alphabet x 17 property names of every class, plus rapid-generated url()/quoted/comma-list shapes and generated names; the emitted text is embedded in a rule list and parsed by an independent CSS tokenizer/parser: the author's rules and declarations must be intact and the value free of ';', blocks, comments, bad tokens, at-keywords, non-url functions, forbidden url schemes and </style. Rendered: css component in <style>, style={map}, style={KV}, style={[]any} fixtures decoded by the HTML tokenizer first.",
        "note": "Trusted: oracle/csstok as the browser's CSS parser, oracle/urlscheme for url() arguments. SafeCSS/SafeCSSProperty/plain string style values are documented pass-throughs and not checked.",
    },
    "C11": {
        "technique": "rapid-generated request histories with injected render failures at every chunk index, exact response oracle (ResponseRecorder and real loopback server)",
        "level": "Fault enumeration: a component that writes k generated chunks (0..64KiB, crossing the 4KiB buffer) and fails after chunk j for every j, under generated handler configurations (status, content type, five error-handler behaviours, streaming as the documented contrast), in histories of up to 12 requests sharing the buffer pool; the response must be exactly the document with the configured status/type, or exactly the default 500 message / the error handler's own response with no document byte.",
        "note": "Trusted: httptest.ResponseRecorder and net/http as the observer. Chunk alphabet is disjoint from error texts. Streaming mode is only sanity-checked (partial output is documented there).",
    },
    "C18": {
        "technique": "rapid round-trip with generated chunkings, damaged-frame generation + native fuzzing of stream.Read, and randomised concurrent plans against a scripted peer under the race detector",
        "level": "Exploration: (a) generated message sequences are written, each frame re-parsed by an independent parser (Content-Length counts bytes), and read back through generated chunkings - equality of kind/id/method/canonical JSON; (b) generated damage to frames and coverage-guided fuzzing (thorough): error, never panic, never a hang, never more messages than complete frames; (c) generated plans of concurrent callers/notifiers with cancellations against a peer answering in permuted batches, late and never, with late duplicates: no interleaved frame at the peer, each call gets its own response or its own cancellation, the connection keeps working; -race.",
        "note": "Trusted: the harness's own frame parser and scripted peer. Schedules are sampled (Go scheduler), not enumerated; liveness is 'returns within 30 s'.",
    },
    "C19": {
        "technique": "rapid-generated operation plans executed in child processes under -race, with the hazardous schedule forced through a build-tag hook",
        "level": "Exploration: generated plans of subscribe / cancel / stall / broadcast / park-release operations over up to 5 in-process clients of one sse.Handler; the 'client unregistered while a delivery is pending' schedule is forced deterministically via the verif hook (half of all plans), the rest is stress; each plan runs in its own process so that a panic in a delivery goroutine is observed as the crash it is. Oracle: process survives, no race, Send returns within 2 s with a stalled client present, every continuously connected client receives every broadcast.",
        "note": "Trusted: the in-process client model (ResponseWriter whose Write can block). Without the hook (guard off) only the stress part would apply. Liveness is bounded waiting (10 s per expectation).",
    },
    "C17": {
        "technique": "bounded exhaustive enumeration + rapid edit-sequence generation against a byte-splice reference model",
        "level": "Exploration: every single edit on every document of <=4 (quick) / <=6 (thorough) characters over {a,LF} with every ordered range up to 2 beyond the document and 5 replacement texts is enumerated completely, and rapid generates long multi-byte documents with sequences of up to 40 open/full-replace/incremental edits including out-of-range positions; after every step Document.String() is compared with an independent byte-splice model using LSP clamping. This is the right level because the document type is a pure function of the edit history and small documents already exercise every branch (insert/delete/overwrite/whole-document, clamping).",
        "note": "Trusted: the byte-splice model and its clamping rule (line beyond end -> end of document, column beyond line -> line end). Columns are bytes at rune boundaries; ranges are ordered as LSP requires. Does not prove absence for documents larger than the enumerated bound.",
    },
    "C20": {
        "technique": "rapid grammar-generated HTML documents x encodings x headers through a real loopback proxy, DOM-differential and byte-identity oracles",
        "level": "Exploration: generated exchanges (document grammar with doctype/head/body variants, nested content, existing scripts/styles/comments, entities, non-ASCII, sizes up to several MiB; encodings none/gzip/br/deflate/zstd/junk; content types; CSP shapes; HX-Request; skip marker; Content-Length vs chunked backend) go backend -> proxy.New -> client over loopback HTTP. For HTML in identity/gzip/br the client-decoded body must parse to the original DOM plus exactly one reload script (with the first script-src nonce) as last child of body and Content-Length must equal the bytes received; every other class must arrive byte-identical with unchanged headers.",
        "note": "Trusted: golang.org/x/net/html's parser for DOM comparison (also used by the proxy, so the oracle compares documents, it does not validate the parser), the harness's own CSP nonce reading, gzip/brotli decoders.",
    },
    "C15": {
        "technique": "rapid-generated directory trees and flag/worker configurations run through generatecmd.Run under -race, compared file-by-file with an independently computed expected tree",
        "level": "Exploration: generated trees (skipped and look-alike directory names at every depth, valid/unparsable/un-gofmt-able templates, stale, newer and orphaned _templ.go, other files, explicit mtimes) x keep-orphaned / lazy / include-version x 1..32 workers x GOMAXPROCS; the command is run twice in-process; every path and every byte of the resulting tree is compared with an expected tree computed per file (single-file generation with the relative file name, own skip/orphan/lazy rules); error status must be 'fails iff some reachable template is ungenerable'.",
        "note": "Trusted: single-file parse+generate+gofmt from /repo as the reference for file contents (the property defines the expected content that way); the harness's own implementation of the skip, orphan and lazy rules. Schedules are sampled.",
    },
}
