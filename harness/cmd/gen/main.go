// Command gen runs /repo's parser and generator over every .templ file below the given
// directories, writing the gofmt-ed _templ.go next to each (what `templ generate` does), so that
// fixtures are always compiled from /repo's current working tree.
package main

import (
	"fmt"
	"io/fs"
	"os"
	"path/filepath"
	"strings"

	"verif/tc"
)

func main() {
	failed := false
	for _, dir := range os.Args[1:] {
		_ = filepath.WalkDir(dir, func(p string, d fs.DirEntry, err error) error {
			if err != nil || d.IsDir() || !strings.HasSuffix(p, ".templ") {
				return nil
			}
			src, err := os.ReadFile(p)
			if err != nil {
				fmt.Fprintln(os.Stderr, err)
				failed = true
				return nil
			}
			g, stage, err := tc.Generate(string(src), filepath.Base(p))
			if err != nil {
				fmt.Fprintf(os.Stderr, "%s: %s: %v\n", p, stage, err)
				failed = true
				return nil
			}
			out := strings.TrimSuffix(p, ".templ") + "_templ.go"
			if old, err := os.ReadFile(out); err == nil && string(old) == g.Go {
				return nil
			}
			tmp := out + ".tmp"
			if err := os.WriteFile(tmp, []byte(g.Go), 0o644); err != nil {
				fmt.Fprintln(os.Stderr, err)
				failed = true
				return nil
			}
			_ = os.Rename(tmp, out)
			return nil
		})
	}
	if failed {
		os.Exit(1)
	}
}
