// Package batch compiles generated templ programs and runs them: the templates are turned into Go
// by /repo's parser and generator in-process (tc.Generate), written into a throw-away module that
// replaces github.com/a-h/templ with /repo, built with the go tool, and executed as a child
// process.
package batch

import (
	"bytes"
	"context"
	"fmt"
	"os"
	"os/exec"
	"path/filepath"
	"strings"
	"sync/atomic"
	"time"

	"verif/tc"
)

var seq int64

func repoDir() string {
	if r := os.Getenv("VERIF_REPO"); r != "" {
		return r
	}
	return "/repo"
}

// Dir returns a fresh scratch directory for one batch.
func Dir() string {
	base := os.Getenv("VERIF_SCRATCH")
	if base == "" {
		base = os.TempDir()
	}
	d := filepath.Join(base, fmt.Sprintf("batch-%d-%d", os.Getpid(), atomic.AddInt64(&seq, 1)))
	_ = os.MkdirAll(d, 0o755)
	return d
}

// GenError is returned when a template of the batch is not accepted by templ generate.
type GenError struct {
	File  string
	Stage string
	Err   error
}

func (e *GenError) Error() string { return fmt.Sprintf("%s: %s: %v", e.File, e.Stage, e.Err) }

// BuildError is returned when the generated Go does not compile.
type BuildError struct{ Output string }

func (e *BuildError) Error() string { return "go build failed:\n" + e.Output }

// Options for Build.
type Options struct {
	Race    bool
	DevMode bool // also write the development-mode text files next to the sources (as generate --watch does)
}

// Build writes the files (name -> content; *.templ are generated) into dir as package main and
// builds ./prog. Returns the path of the binary.
func Build(dir string, files map[string]string, opt Options) (string, error) {
	mod := "module batchprog\n\ngo 1.23.0\n\nrequire github.com/a-h/templ v0.0.0\n\nreplace github.com/a-h/templ => " + repoDir() + "\n"
	if err := os.WriteFile(filepath.Join(dir, "go.mod"), []byte(mod), 0o644); err != nil {
		return "", err
	}
	if sum, err := os.ReadFile(filepath.Join(repoDir(), "go.sum")); err == nil {
		_ = os.WriteFile(filepath.Join(dir, "go.sum"), sum, 0o644)
	}
	for name, src := range files {
		p := filepath.Join(dir, name)
		if err := os.WriteFile(p, []byte(src), 0o644); err != nil {
			return "", err
		}
		if strings.HasSuffix(name, ".templ") {
			g, stage, err := tc.Generate(src, name)
			if err != nil {
				return "", &GenError{File: name, Stage: stage, Err: err}
			}
			if err := os.WriteFile(strings.TrimSuffix(p, ".templ")+"_templ.go", []byte(g.Go), 0o644); err != nil {
				return "", err
			}
			if opt.DevMode {
				txt := strings.Join(g.Output.Literals, "\n")
				if err := os.WriteFile(strings.TrimSuffix(p, ".templ")+"_templ.txt", []byte(txt), 0o644); err != nil {
					return "", err
				}
			}
		}
	}
	args := []string{"build", "-o", "prog"}
	if opt.Race {
		args = append(args, "-race")
	}
	args = append(args, ".")
	cmd := exec.Command("go", args...)
	cmd.Dir = dir
	cmd.Env = append(os.Environ(), "GOFLAGS=-mod=mod", "GOPROXY=off", "GOSUMDB=off", "GOTOOLCHAIN=local")
	out, err := cmd.CombinedOutput()
	if err != nil {
		return "", &BuildError{Output: string(out)}
	}
	return filepath.Join(dir, "prog"), nil
}

// Run executes the program with the given stdin and environment additions.
func Run(bin string, stdin []byte, env []string, timeout time.Duration, args ...string) (stdout, stderr []byte, err error) {
	ctx, cancel := context.WithTimeout(context.Background(), timeout)
	defer cancel()
	cmd := exec.CommandContext(ctx, bin, args...)
	cmd.Dir = filepath.Dir(bin)
	cmd.Env = append(append(os.Environ(), "GORACE=atexit_sleep_ms=0"), env...)
	cmd.Stdin = bytes.NewReader(stdin)
	var so, se bytes.Buffer
	cmd.Stdout, cmd.Stderr = &so, &se
	err = cmd.Run()
	if ctx.Err() != nil {
		err = fmt.Errorf("timeout after %s", timeout)
	}
	return so.Bytes(), se.Bytes(), err
}
