package fx

import (
	"context"
	"html"

	"github.com/a-h/templ"
	templruntime "github.com/a-h/templ/runtime"
)

// Sink is one dynamic HTML sink placed in fixed surroundings.
type Sink struct {
	Name string
	Kind string // sink kind of C01's quantifier
	// Make returns the component and the context to render it with.
	Make func(ctx context.Context, s string) (context.Context, templ.Component)
	// Expect is the value the tokenizer must see for s: nil means s itself (it may sit inside a
	// longer attribute value / text run); otherwise the complete attribute value.
	Expect func(s string) string
	// OmittedWhenEmpty: the attribute is left out for the empty string.
	OmittedWhenEmpty bool
	// MayBeDropped: the value has a type that spread attributes leave out altogether; if it is
	// written after all, it must be written as one attribute value like any other.
	MayBeDropped bool
}

type namedString string

type stringer struct{ s string }

func (s stringer) String() string { return s.s }

func plain(f func(s string) templ.Component) func(context.Context, string) (context.Context, templ.Component) {
	return func(ctx context.Context, s string) (context.Context, templ.Component) { return ctx, f(s) }
}

// styleExpect is the CSS text the style sanitiser produced for the same arguments (its return
// value is that text HTML-escaped): C01 checks that exactly this text reaches the tokenizer as
// the one style attribute value (what the sanitiser lets through is C05's business).
func styleExpect(args func(s string) []any) func(string) string {
	return func(s string) string {
		v, err := templruntime.SanitizeStyleAttributeValues(args(s)...)
		if err != nil {
			panic(err)
		}
		return html.UnescapeString(v)
	}
}

// Sinks lists every dynamic HTML sink of C01's quantifier.
var Sinks = []Sink{
	{Name: "TextPlain", Kind: "text", Make: plain(func(s string) templ.Component { return TextPlain(s) })},
	{Name: "TextAdjacent", Kind: "text", Make: plain(func(s string) templ.Component { return TextAdjacent(s) })},
	{Name: "TextInControl0", Kind: "text", Make: plain(func(s string) templ.Component { return TextInControl(s, nil) })},
	{Name: "TextInControl2", Kind: "text", Make: plain(func(s string) templ.Component { return TextInControl(s, []string{s, "k" + s}) })},
	{Name: "TextErrCall", Kind: "text", Make: plain(func(s string) templ.Component { return TextErrCall(s) })},
	{Name: "TextRCDATA", Kind: "text", Make: plain(func(s string) templ.Component { return TextRCDATA(s) })},
	{Name: "TextSprintf", Kind: "text", Make: plain(func(s string) templ.Component { return TextSprintf(s) })},
	{Name: "AttrString", Kind: "string-attribute", Make: plain(func(s string) templ.Component { return AttrString(s) })},
	{Name: "AttrStringTwo", Kind: "string-attribute", Make: plain(func(s string) templ.Component { return AttrStringTwo(s) })},
	{Name: "AttrErrCall", Kind: "string-attribute", Make: plain(func(s string) templ.Component { return AttrErrCall(s) })},
	{Name: "AttrInCondT", Kind: "string-attribute", Make: plain(func(s string) templ.Component { return AttrInCond(s, true) })},
	{Name: "AttrInCondF", Kind: "string-attribute", Make: plain(func(s string) templ.Component { return AttrInCond(s, false) })},
	{Name: "AttrBoolAndString", Kind: "string-attribute", Make: plain(func(s string) templ.Component { return AttrBoolAndString(s, true) })},
	{Name: "ImgSrc", Kind: "string-attribute", Make: plain(func(s string) templ.Component { return ImgSrc(s) })},
	{Name: "SpreadString", Kind: "spread-string", Make: plain(func(s string) templ.Component {
		return AttrSpread(templ.Attributes{"title": s, "hidden": true, "a-off": false})
	})},
	{Name: "SpreadStringPtr", Kind: "spread-*string", Make: plain(func(s string) templ.Component {
		return AttrSpread(templ.Attributes{"title": &s, "data-nil": (*string)(nil)})
	})},
	{Name: "SpreadKV", Kind: "spread-keyvalue", Make: plain(func(s string) templ.Component {
		return AttrSpread(templ.Attributes{"title": templ.KV(s, true), "lang": templ.KV(s, false)})
	})},
	{Name: "SpreadCond", Kind: "spread-string", Make: plain(func(s string) templ.Component {
		return AttrSpreadCond(templ.Attributes{"title": s, "zz": s}, true)
	})},
	{Name: "SpreadSafeURL", Kind: "spread-other-types", MayBeDropped: true, Make: plain(func(s string) templ.Component {
		return AttrSpread(templ.Attributes{"href": templ.SafeURL(s), "title": "t"})
	})},
	{Name: "SpreadURL", Kind: "spread-other-types", MayBeDropped: true, Expect: func(s string) string { return string(templ.URL(s)) }, Make: plain(func(s string) templ.Component {
		return AttrSpread(templ.Attributes{"href": templ.URL(s), "title": "t"})
	})},
	{Name: "SpreadSafeCSS", Kind: "spread-other-types", MayBeDropped: true, Make: plain(func(s string) templ.Component {
		return AttrSpread(templ.Attributes{"style": templ.SafeCSS(s), "title": "t"})
	})},
	{Name: "SpreadNamedString", Kind: "spread-other-types", MayBeDropped: true, Make: plain(func(s string) templ.Component {
		return AttrSpread(templ.Attributes{"data-n": namedString(s), "title": "t"})
	})},
	{Name: "SpreadStringer", Kind: "spread-other-types", MayBeDropped: true, Make: plain(func(s string) templ.Component {
		return AttrSpread(templ.Attributes{"data-s": stringer{s}, "title": "t"})
	})},
	{Name: "SpreadBytes", Kind: "spread-other-types", MayBeDropped: true, Make: plain(func(s string) templ.Component {
		return AttrSpread(templ.Attributes{"data-b": []byte(s), "title": "t"})
	})},
	{Name: "SpreadKVSafeURL", Kind: "spread-other-types", MayBeDropped: true, Make: plain(func(s string) templ.Component {
		return AttrSpread(templ.Attributes{"href": templ.KV(templ.SafeURL(s), true), "title": "t"})
	})},
	{Name: "ClassString", Kind: "class", Make: plain(func(s string) templ.Component { return ClassString(s) })},
	{Name: "ClassMixed", Kind: "class", Make: plain(func(s string) templ.Component { return ClassMixed(s) })},
	{Name: "ClassKVSlice", Kind: "class", Make: plain(func(s string) templ.Component { return ClassKVSlice(s) })},
	{Name: "ClassConstAndExpr", Kind: "class", Make: plain(func(s string) templ.Component { return ClassConstAndExpr(s) })},
	{Name: "StyleString", Kind: "style", Expect: styleExpect(func(s string) []any { return []any{s} }),
		Make: plain(func(s string) templ.Component { return StyleString(s) })},
	{Name: "StyleMap", Kind: "style", Expect: styleExpect(func(s string) []any { return []any{map[string]string{"color": s}} }),
		Make: plain(func(s string) templ.Component { return StyleMap(s) })},
	{Name: "StyleMapKey", Kind: "style", Expect: styleExpect(func(s string) []any { return []any{map[string]string{s: "red"}} }),
		Make: plain(func(s string) templ.Component { return StyleMapKey(s) })},
	{Name: "StyleKV", Kind: "style", Expect: styleExpect(func(s string) []any { return []any{templ.KV("color", s)} }),
		Make: plain(func(s string) templ.Component { return StyleKV(s) })},
	{Name: "StyleKVKey", Kind: "style", Expect: styleExpect(func(s string) []any { return []any{templ.KV(s, "red")} }),
		Make: plain(func(s string) templ.Component { return StyleKVKey(s) })},
	{Name: "StyleSafeCSS", Kind: "style", Expect: styleExpect(func(s string) []any { return []any{templ.SafeCSS(s)} }),
		Make: plain(func(s string) templ.Component { return StyleSafeCSS(s) })},
	{Name: "StyleSafeProp", Kind: "style", Expect: styleExpect(func(s string) []any {
		return []any{map[string]templ.SafeCSSProperty{"color": templ.SafeCSSProperty(s)}}
	}),
		Make: plain(func(s string) templ.Component { return StyleSafeProp(s) })},
	{Name: "StyleFontQuoted", Kind: "style", Expect: styleExpect(func(s string) []any { return []any{map[string]string{"font-family": "\"" + s + "\""}} }),
		Make: plain(func(s string) templ.Component { return StyleFontQuoted(s) })},
	{Name: "StyleFontList", Kind: "style", Expect: styleExpect(func(s string) []any { return []any{templ.KV("font-family", s+", \"Noto Sans\", serif")} }),
		Make: plain(func(s string) templ.Component { return StyleFontList(s) })},
	{Name: "StyleBgURLQuoted", Kind: "style", Expect: styleExpect(func(s string) []any { return []any{templ.KV("background-image", "url(\""+s+"\")")} }),
		Make: plain(func(s string) templ.Component { return StyleBgURLQuoted(s) })},
	{Name: "StyleBgURL", Kind: "style", Expect: styleExpect(func(s string) []any { return []any{map[string]string{"background-image": "url(" + s + ")"}} }),
		Make: plain(func(s string) templ.Component { return StyleBgURL(s) })},
	{Name: "StyleMulti", Kind: "style", Expect: styleExpect(func(s string) []any {
		return []any{"margin:0", map[string]string{"width": s}, templ.KV("color:red", true)}
	}),
		Make: plain(func(s string) templ.Component { return StyleMulti(s) })},
	{Name: "HrefURL", Kind: "href", Expect: func(s string) string { return string(templ.URL(s)) },
		Make: plain(func(s string) templ.Component { return HrefURL(s) })},
	{Name: "HrefSafeURL", Kind: "href", Make: plain(func(s string) templ.Component { return HrefSafeURL(s) })},
	{Name: "FormAction", Kind: "action", Expect: func(s string) string { return string(templ.URL(s)) },
		Make: plain(func(s string) templ.Component { return FormAction(s) })},
	{Name: "JSONScriptID", Kind: "jsonscript-id", OmittedWhenEmpty: true, Make: plain(func(s string) templ.Component { return JSONScriptID(s) })},
	{Name: "JSONScriptType", Kind: "jsonscript-type", OmittedWhenEmpty: true, Make: plain(func(s string) templ.Component { return JSONScriptType(s) })},
	{Name: "JSONScriptNonce", Kind: "jsonscript-nonce", OmittedWhenEmpty: true, Make: plain(func(s string) templ.Component { return JSONScriptNonce(s) })},
	{Name: "JSONScriptIDWithNonce", Kind: "jsonscript-id", OmittedWhenEmpty: true, Make: plain(func(s string) templ.Component { return JSONScriptIDWithNonce(s) })},
	{Name: "JSONScriptTypeWithNonce", Kind: "jsonscript-type", OmittedWhenEmpty: true, Make: plain(func(s string) templ.Component { return JSONScriptTypeWithNonce(s) })},
	{Name: "JSONScriptAll", Kind: "jsonscript-nonce", OmittedWhenEmpty: true, Make: plain(func(s string) templ.Component { return JSONScriptAll(s) })},
	{Name: "JSONScriptIDCtxNonce", Kind: "jsonscript-id", OmittedWhenEmpty: true, Make: func(ctx context.Context, s string) (context.Context, templ.Component) {
		return templ.WithNonce(ctx, "ctxn0nce"), JSONScriptID(s)
	}},
	{Name: "TwoSinks", Kind: "several-sinks", Make: plain(func(s string) templ.Component { return TwoSinks(s) })},
	{Name: "JSONScriptCtxNonce", Kind: "jsonscript-nonce", OmittedWhenEmpty: true, Make: func(ctx context.Context, s string) (context.Context, templ.Component) {
		return templ.WithNonce(ctx, s), JSONScriptCtxNonce()
	}},
	{Name: "ScriptTplCallNonce", Kind: "script-nonce", OmittedWhenEmpty: true, Make: func(ctx context.Context, s string) (context.Context, templ.Component) {
		return templ.WithNonce(ctx, s), ScriptTplCall()
	}},
	{Name: "ScriptTplOnNonce", Kind: "script-nonce", OmittedWhenEmpty: true, Make: func(ctx context.Context, s string) (context.Context, templ.Component) {
		return templ.WithNonce(ctx, s), ScriptTplOn()
	}},
	{Name: "FuncCallNonce", Kind: "script-nonce", OmittedWhenEmpty: true, Make: func(ctx context.Context, s string) (context.Context, templ.Component) {
		return templ.WithNonce(ctx, s), FuncCallComponent()
	}},
	// everything else templ writes while a nonce is in the context: style elements of css components,
	// once handles, the JSON script element without a nonce of its own. Today none of them carries
	// the nonce (MayBeDropped); if one does, it must carry it as one attribute value.
	{Name: "CSSComponentCtxNonce", Kind: "context-nonce", MayBeDropped: true, OmittedWhenEmpty: true, Make: func(ctx context.Context, s string) (context.Context, templ.Component) {
		return templ.WithNonce(ctx, s), CSSComponent("color", "red")
	}},
	{Name: "ClassMixedCtxNonce", Kind: "context-nonce", MayBeDropped: true, OmittedWhenEmpty: true, Make: func(ctx context.Context, s string) (context.Context, templ.Component) {
		return templ.WithNonce(ctx, s), ClassMixed("cls")
	}},
	{Name: "EUsesCtxNonce", Kind: "context-nonce", MayBeDropped: true, OmittedWhenEmpty: true, Make: func(ctx context.Context, s string) (context.Context, templ.Component) {
		return templ.WithNonce(ctx, s), EUses([]EUse{{Kind: "class-direct", A: 0}, {Kind: "once-fixed"}, {Kind: "jsfunc-attr", S: "z"}, {Kind: "class-kv", A: 1, On: true}})
	}},
}
