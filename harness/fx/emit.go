package fx

import "github.com/a-h/templ"

// EUse is one use of a script template / css component / once handle in a C12 history.
type EUse struct {
	Kind string `json:"kind"`
	A    int    `json:"a,omitempty"`
	B    int    `json:"b,omitempty"`
	N    int    `json:"n,omitempty"`
	S    string `json:"s,omitempty"`
	On   bool   `json:"on,omitempty"`
	Kids []EUse `json:"kids,omitempty"`
}

// EScript returns script template a%3 with its arguments.
func EScript(a, n int, s string) templ.ComponentScript {
	switch a % 3 {
	case 0:
		return es0(s)
	case 1:
		return es1()
	default:
		return es2(n, s)
	}
}

// ECSS returns css component a%3 (the third one takes the width n).
func ECSS(a, n int) templ.CSSClass {
	switch a % 3 {
	case 0:
		return ec0()
	case 1:
		return ec1()
	default:
		return ec2(n)
	}
}

func EHandle(a int) *templ.OnceHandle {
	switch a % 4 {
	case 0:
		return eh0
	case 1:
		return eh1
	case 2:
		return ez0
	default:
		return ez1
	}
}

// EFixed is the once handle that carries its own component.
func EFixed() templ.Component { return eh2.Once() }
