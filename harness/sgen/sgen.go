// Package sgen holds the adversarial string generators shared by the escaping checks.
package sgen

import (
	"strings"
	"unicode/utf8"

	"pgregory.net/rapid"
)

var HTMLTokens = []string{
	"<", ">", "&", "\"", "'", "`", "=", "/", " ", "\t", "\n", "\f", "\r", "\r\n", "</", "-->", "<!--", "--!>",
	"<script>", "</script>", "</style>", "</textarea>", "</title>", "&quot;", "&#34;", "&#x22;", "&lt", "&amp;", "&amp;lt;", "]]>", "<![CDATA[",
	" onerror=", "x", "a", "=x", "\x00", "\x7f", "\u0085", "\u2028", "\ufeff", "é", "世", "😀", "\\", "\\\"", "%22", "javascript:",
	// format verbs: a value must never be used as (part of) a format string
	"%", "%q", "%s", "%d", "%v", "%[1]q", "100%", "%!", "%%",
}

var JSTokens = []string{
	"\\", "'", "\"", "`", "$", "{", "}", "${", "${alert(1)}", "</script", "</script>", "</SCRIPT >", "<!--", "-->", "<script", "]]>",
	"\u2028", "\u2029", "\n", "\r", "\x00", "\\u", "\\x", "\\u0027", "\\'", "+", "/", "*/", "/*", "//", ";", "alert(1)", "pwn()", ")", "(", ",", "x", "é", "😀",
	"&", "&quot;", "&#39;", "<", ">", " ", "\t", "\x0b", "\x08", "\x1f", "\x7f", "\ufeff",
}

var InvalidUTF8 = []string{
	"\x80", "\xbf", "\xc0\xaf", "\xc3", "\xe2\x82", "\xf0\x9f\x98", "\xed\xa0\x80", "\xed\xbf\xbf", "\xf4\x90\x80\x80", "\xff", "\xfe", "\xc0\xbc", "\xe0\x80\xbc", "\xf8\x88\x80\x80\x80",
}

// Scalar draws any Unicode scalar value, biased towards the interesting low ranges.
func Scalar() *rapid.Generator[rune] {
	return rapid.Custom(func(t *rapid.T) rune {
		switch rapid.IntRange(0, 5).Draw(t, "plane") {
		case 0:
			return rune(rapid.IntRange(0, 0x7f).Draw(t, "ascii"))
		case 1:
			return rune(rapid.IntRange(0x80, 0x7ff).Draw(t, "r2"))
		case 2:
			r := rune(rapid.IntRange(0x800, 0xffff).Draw(t, "r3"))
			if r >= 0xd800 && r <= 0xdfff {
				r = 0xfffd
			}
			return r
		case 3:
			return rune(rapid.IntRange(0x10000, 0x10ffff).Draw(t, "r4"))
		case 4:
			return rapid.SampledFrom([]rune{0, '\r', '\n', '\t', 0x0b, 0x0c, 0x1b, 0x7f, 0x80, 0x85, 0x9f, 0xa0, 0x2028, 0x2029, 0xfeff, 0xfffd, 0xfffe, 0xffff, 0x10ffff, 0x1f600}).Draw(t, "special")
		default:
			return rune(rapid.IntRange(0x20, 0x7e).Draw(t, "print"))
		}
	})
}

// FromTokens draws a sequence of 0..max tokens of the alphabet, with occasional invalid UTF-8 and
// arbitrary scalar values mixed in.
func FromTokens(alphabet []string, max int) *rapid.Generator[string] {
	return rapid.Custom(func(t *rapid.T) string {
		n := rapid.IntRange(0, max).Draw(t, "n")
		var sb strings.Builder
		for i := 0; i < n; i++ {
			switch k := rapid.IntRange(0, 19).Draw(t, "k"); {
			case k == 0:
				sb.WriteString(rapid.SampledFrom(InvalidUTF8).Draw(t, "inv"))
			case k == 1:
				sb.WriteRune(Scalar().Draw(t, "r"))
			default:
				sb.WriteString(rapid.SampledFrom(alphabet).Draw(t, "tok"))
			}
		}
		return sb.String()
	})
}

// HTMLString is the string domain of C01.
func HTMLString() *rapid.Generator[string] {
	return rapid.OneOf(
		FromTokens(HTMLTokens, 8),
		FromTokens(HTMLTokens, 3),
		rapid.Custom(func(t *rapid.T) string { return string(Scalar().Draw(t, "r")) }),
		rapid.SampledFrom(InvalidUTF8),
		rapid.String(),
	)
}

// JSString is the string domain of C03.
func JSString() *rapid.Generator[string] {
	return rapid.OneOf(
		FromTokens(JSTokens, 8),
		FromTokens(JSTokens, 3),
		FromTokens(HTMLTokens, 4),
		rapid.Custom(func(t *rapid.T) string { return string(Scalar().Draw(t, "r")) }),
		rapid.SampledFrom(InvalidUTF8),
		rapid.String(),
	)
}

// Sensitive reports whether s holds a markup metacharacter, a control or an invalid byte.
func Sensitive(s string) bool {
	if !utf8.ValidString(s) {
		return true
	}
	for _, r := range s {
		switch {
		case r < 0x20, r == 0x7f, r >= 0x80 && r <= 0x9f:
			return true
		case strings.ContainsRune("<>&\"'`\\${}/+", r), r == 0x2028, r == 0x2029:
			return true
		}
	}
	return false
}

// AllScalars calls f for every Unicode scalar value in shard i of n.
func AllScalars(i, n int, f func(r rune)) {
	for r := rune(0); r <= 0x10ffff; r++ {
		if r >= 0xd800 && r <= 0xdfff {
			continue
		}
		if int(r)%n != i {
			continue
		}
		f(r)
	}
}
