// Package tc wraps /repo's parser and generator ("what templ generate does to one file") and an
// in-process Go type checker, for checks that need "this template is accepted / this generated
// code compiles" on thousands of generated programs.
package tc

import (
	"bytes"
	"fmt"
	"go/ast"
	"go/build"
	"go/format"
	"go/importer"
	goparser "go/parser"
	"go/token"
	"go/types"
	"os"
	"path/filepath"
	"sort"
	"strings"
	"sync"

	"github.com/a-h/templ/generator"
	"github.com/a-h/templ/parser/v2"
)

type Generated struct {
	File   parser.TemplateFile
	Go     string // gofmt-ed
	RawGo  string // as written by the generator
	Output generator.GeneratorOutput
}

// Generate does what `templ generate` does for one file: parse, generate, gofmt.
// stage tells which step failed: "parse", "generate", "gofmt".
func Generate(src, fileName string) (g Generated, stage string, err error) {
	return GenerateOpts(src, fileName)
}

// GenerateOpts is Generate with extra generator options (e.g. generator.WithVersion).
func GenerateOpts(src, fileName string, opts ...generator.GenerateOpt) (g Generated, stage string, err error) {
	defer func() {
		if x := recover(); x != nil {
			err = fmt.Errorf("panic in %s: %v", stage, x)
		}
	}()
	stage = "parse"
	tf, err := parser.ParseString(src)
	if err != nil {
		return g, stage, err
	}
	tf.Filepath = fileName
	g.File = tf
	stage = "generate"
	var buf bytes.Buffer
	out, err := generator.Generate(tf, &buf, append(opts, generator.WithFileName(fileName))...)
	if err != nil {
		return g, stage, err
	}
	g.Output = out
	g.RawGo = buf.String()
	stage = "gofmt"
	b, err := format.Source(buf.Bytes())
	if err != nil {
		return g, stage, err
	}
	g.Go = string(b)
	return g, "", nil
}

// Format is what `templ fmt` does to stdin: parse, then TemplateFile.Write.
func Format(src string) (out string, err error) {
	defer func() {
		if x := recover(); x != nil {
			err = fmt.Errorf("panic in format: %v", x)
		}
	}()
	tf, err := parser.ParseString(src)
	if err != nil {
		return "", err
	}
	var buf bytes.Buffer
	if err = tf.Write(&buf); err != nil {
		return "", err
	}
	return buf.String(), nil
}

var (
	impMu   sync.Mutex
	impFset = token.NewFileSet()
	imp     types.Importer
)

// cachingImporter remembers every imported package by path: the source importer locates a package
// with `go list` (one child process per import, each time) before it looks into its own cache.
// All imports are resolved from the harness module's directory, so the path identifies the package.
type cachingImporter struct {
	inner types.ImporterFrom
	pkgs  map[string]*types.Package
}

func (c *cachingImporter) Import(path string) (*types.Package, error) {
	return c.ImportFrom(path, "", 0)
}

func (c *cachingImporter) ImportFrom(path, dir string, mode types.ImportMode) (*types.Package, error) {
	if p, ok := c.pkgs[path]; ok {
		return p, nil
	}
	p, err := c.inner.ImportFrom(path, dir, mode)
	if err == nil && p != nil && p.Complete() {
		c.pkgs[path] = p
	}
	return p, err
}

// TypeCheck type-checks one package made of the given files (name -> Go source), importing
// dependencies from source (templ from /repo via the module replace). Returns the type errors.
func TypeCheck(files map[string]string) (errs []error) {
	impMu.Lock()
	defer impMu.Unlock()
	if imp == nil {
		// go/build resolves module packages with `go list` run in build.Default.Dir (or the
		// process's working directory): point it at the harness module.
		build.Default.Dir = HarnessDir()
		imp = &cachingImporter{inner: importer.ForCompiler(impFset, "source", nil).(types.ImporterFrom), pkgs: map[string]*types.Package{}}
	}
	fset := token.NewFileSet()
	var parsed []*ast.File
	names := make([]string, 0, len(files))
	for name := range files {
		names = append(names, name)
	}
	sort.Strings(names)
	for _, name := range names {
		// The file's directory decides where imports are resolved from: it must be inside the
		// harness module so that "github.com/a-h/templ" means /repo.
		f, err := goparser.ParseFile(fset, filepath.Join(HarnessDir(), name), files[name], goparser.SkipObjectResolution)
		if err != nil {
			return []error{err}
		}
		parsed = append(parsed, f)
	}
	conf := types.Config{Importer: imp, Error: func(err error) { errs = append(errs, err) }}
	_, _ = conf.Check("p", fset, parsed, nil)
	return errs
}

// HarnessDir is the directory of the harness module (imports are resolved from there).
func HarnessDir() string {
	r := os.Getenv("VERIF_ROOT")
	if r == "" {
		r = "/verif"
	}
	return filepath.Join(r, "harness")
}

// ImportProblem reports whether the errors come from the type checker being unable to load a
// dependency - trouble with the harness environment, not a verdict about the checked code.
func ImportProblem(errs []error) bool {
	for _, e := range errs {
		if strings.Contains(e.Error(), "could not import") {
			return true
		}
	}
	return false
}
