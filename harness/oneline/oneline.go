// Package oneline enumerates small templ templates whose interesting part is written on a single
// line: every sequence of 1..3 child nodes (text, expressions, inline / block / void elements,
// component calls with and without block, children, comments, control flow, raw Go, script and
// style elements, legacy calls) inside an inline or a block parent, element start tags with every
// combination of up to 3 attribute kinds (constant, boolean, expression, boolean expression,
// conditional, spread, class, style) on one line, and statements in unformatted spellings.
// The space is finite and small: callers enumerate it completely.
package oneline

import "strings"

// Children are the node spellings; none contains a line break.
var Children = []string{
	`text`,
	`two words `,
	`{ s }`,
	`{s}`,
	`<span>in</span>`,
	`<b>{ s }</b>`,
	`<div>blk</div>`,
	`<br/>`,
	`<input type="text">`,
	`@c()`,
	`@c() { inner }`,
	`{ children... }`,
	`<!-- c -->`,
	`if b { yes }`,
	`if b { yes } else { no }`,
	`for _, x := range xs { { x } }`,
	`switch s { case "a": one }`,
	`{{ v := s }}`,
	`{{ a := 1; _ = a }}`,
	`<script>var a = 1;</script>`,
	`<style>p { margin: 0 }</style>`,
	`{! c() }`,
	`{! c( ) }`,
	`<span><b>@c()</b></span>`,
	`<span>one</span><span>two</span>`,
	`// go comment`,
	`/* block */`,
}

// Attrs are attribute spellings without line breaks.
var Attrs = []string{
	`id="i"`,
	`hidden`,
	`title={ s }`,
	`title={s}`,
	`disabled?={ b }`,
	`if b { class="a" }`,
	`if b { id="x" } else { id="y" }`,
	`{ attrs... }`,
	`class={ "a", templ.KV("b", b) }`,
	`style={ s }`,
	`data-x='single'`,
	`onclick={ js() }`,
	`href={ templ.URL(s) }`,
}

const header = "package p\n\nscript js() {\n\tconsole.log(1);\n}\n\ntempl c() {\n\t<i>{ children... }</i>\n}\n\n"

func wrap(body string) string {
	return header + "templ T(s string, b bool, xs []string, attrs templ.Attributes) {\n" + body + "\n}\n"
}

// Each calls f with every source of the family; shard i of n.
func Each(i, n int, f func(name, src string)) {
	k := 0
	emit := func(name, body string) {
		k++
		if k%n == i {
			f(name, wrap(body))
		}
	}
	parents := [][2]string{{"<div>", "</div>"}, {"<span>", "</span>"}, {"<p>", "</p>"}, {"", ""}}
	seps := []string{"", " "}
	// child sequences
	for _, p := range parents {
		for a, ca := range Children {
			emit("child:"+ca, "\t"+p[0]+ca+p[1])
			for b, cb := range Children {
				for _, sep := range seps {
					emit("children:"+ca+"|"+cb, "\t"+p[0]+ca+sep+cb+p[1])
				}
				if a > 12 || b > 12 {
					continue // triples over the first 13 kinds only
				}
				for c := 0; c <= 12; c++ {
					emit("children3", "\t"+p[0]+ca+" "+cb+Children[c]+p[1])
				}
			}
		}
	}
	// attribute lists on one line
	for _, el := range []string{"div", "a", "input"} {
		closeTag := ">x</" + el + ">"
		if el == "input" {
			closeTag = "/>"
		}
		for _, a := range Attrs {
			emit("attr:"+a, "\t<"+el+" "+a+closeTag)
			for _, b := range Attrs {
				if a == b {
					continue
				}
				emit("attrs:"+a+"|"+b, "\t<"+el+" "+a+" "+b+closeTag)
				emit("attrs-tight:"+a+"|"+b, "\t<"+el+" "+a+"  "+b+" "+strings.TrimPrefix(closeTag, " "))
			}
		}
	}
}
