// Package oneline enumerates small templ templates whose interesting part is written on a single
// line: every sequence of 1..3 child nodes (text, expressions, inline / block / void elements,
// component calls with and without block, children, comments, control flow, raw Go, script and
// style elements, legacy calls) inside an inline or a block parent, element start tags with every
// combination of up to 3 attribute kinds (constant, boolean, expression, boolean expression,
// conditional, spread, class, style) on one line, and statements in unformatted spellings.
// The space is finite and small: callers enumerate it completely.
package oneline

import (
	"go/scanner"
	"go/token"
	"strings"
)

// Children are the node spellings; none contains a line break.
var Children = []string{
	`text`,
	`two words `,
	`{ s }`,
	`{s}`,
	`<span>in</span>`,
	`<b>{ s }</b>`,
	`<div>blk</div>`,
	`<br/>`,
	`<input type="text">`,
	`@c()`,
	`@c() { inner }`,
	`{ children... }`,
	`<!-- c -->`,
	`if b { yes }`,
	`if b { yes } else { no }`,
	`for _, x := range xs { { x } }`,
	`switch s { case "a": one }`,
	`{{ v := s }}`,
	`{{ a := 1; _ = a }}`,
	`<script>var a = 1;</script>`,
	`<style>p { margin: 0 }</style>`,
	`{! c() }`,
	`{! c( ) }`,
	`<span><b>@c()</b></span>`,
	`<span>one</span><span>two</span>`,
	`// go comment`,
	`/* block */`,
}

// Attrs are attribute spellings without line breaks.
var Attrs = []string{
	`id="i"`,
	`hidden`,
	`title={ s }`,
	`title={s}`,
	`disabled?={ b }`,
	`if b { class="a" }`,
	`if b { id="x" } else { id="y" }`,
	`{ attrs... }`,
	`class={ "a", templ.KV("b", b) }`,
	`style={ s }`,
	`data-x='single'`,
	`onclick={ js() }`,
	`href={ templ.URL(s) }`,
}

const header = "package p\n\nimport (\n\t\"context\"\n\t\"io\"\n)\n\ntype card struct{ Title string }\n\nfunc (c card) Render(ctx context.Context, w io.Writer) error {\n\t_, err := io.WriteString(w, c.Title)\n\treturn err\n}\n\nfunc (c card) View() templ.Component {\n\treturn c\n}\n\nscript js() {\n\tconsole.log(1);\n}\n\ntempl c() {\n\t<i>{ children... }</i>\n}\n\n"

func wrap(body string) string {
	return header + "templ T(s string, b bool, xs []string, attrs templ.Attributes) {\n" + body + "\n}\n"
}

// Each calls f with every source of the family; shard i of n.
func Each(i, n int, f func(name, src string)) {
	k := 0
	emit := func(name, body string) {
		k++
		if k%n == i {
			f(name, wrap(body))
		}
	}
	parents := [][2]string{{"<div>", "</div>"}, {"<span>", "</span>"}, {"<p>", "</p>"}, {"", ""}}
	seps := []string{"", " "}
	// child sequences
	for _, p := range parents {
		for a, ca := range Children {
			emit("child:"+ca, "\t"+p[0]+ca+p[1])
			for b, cb := range Children {
				for _, sep := range seps {
					emit("children:"+ca+"|"+cb, "\t"+p[0]+ca+sep+cb+p[1])
				}
				if a > 12 || b > 12 {
					continue // triples over the first 13 kinds only
				}
				for c := 0; c <= 12; c++ {
					emit("children3", "\t"+p[0]+ca+" "+cb+Children[c]+p[1])
				}
			}
		}
	}
	// attribute lists on one line
	for _, el := range []string{"div", "a", "input"} {
		closeTag := ">x</" + el + ">"
		if el == "input" {
			closeTag = "/>"
		}
		for _, a := range Attrs {
			emit("attr:"+a, "\t<"+el+" "+a+closeTag)
			for _, b := range Attrs {
				if a == b {
					continue
				}
				emit("attrs:"+a+"|"+b, "\t<"+el+" "+a+" "+b+closeTag)
				emit("attrs-tight:"+a+"|"+b, "\t<"+el+" "+a+"  "+b+" "+strings.TrimPrefix(closeTag, " "))
			}
		}
	}
}

// Layout is a Go expression (or parameter list, statement head, attribute list) cut into tokens;
// the family writes it with every assignment of the gap alphabet to the places before, between and
// after the tokens. A spelling the parser does not accept is simply not a member.
type Layout struct {
	Name      string
	Pre, Post string // the template body around the tokens
	Toks      []string
	Top       bool // Pre/Post are a whole top-level declaration, not a body line of T
	// Parts: the tokens are the parts of a templ construct rather than of one Go expression; a line
	// break between them can make another, equally valid program ("@c()" followed by "{ x }").
	Parts bool
}

var Layouts = []Layout{
	{Name: "attr", Pre: "\t<div title={", Post: "}>x</div>", Toks: []string{`s`, `+`, `"a"`}},
	{Name: "attr-call", Pre: "\t<div title={", Post: "}>x</div>", Toks: []string{`up(`, `s`, `,`, `"x"`, `)`}},
	{Name: "attr-list", Pre: "\t<div title={", Post: "}>x</div>", Toks: []string{`s`, `,`}},
	{Name: "class", Pre: "\t<div class={", Post: "}>x</div>", Toks: []string{`"a"`, `,`, `templ.KV("b", b)`, `,`}},
	{Name: "class-map", Pre: "\t<div class={", Post: "}>x</div>", Toks: []string{`"a"`, `,`, `map[string]bool{"b": b`, `,`, `}`, `,`}},
	{Name: "class-map-key", Pre: "\t<div class={", Post: "}>x</div>", Toks: []string{`"a"`, `,`, `map[string]bool{"b":`, `b`, `,`, `}`, `,`}},
	{Name: "class-one", Pre: "\t<div id=\"i\" class={", Post: "}></div>", Toks: []string{`s`, `,`, `s`}},
	{Name: "style", Pre: "\t<div style={", Post: "}>x</div>", Toks: []string{`templ.SafeCSS(`, `"color:red"`, `)`}},
	{Name: "bool-attr", Pre: "\t<input disabled?={", Post: "}/>", Toks: []string{`b`, `&&`, `b`}},
	{Name: "spread", Pre: "\t<div {", Post: "...}>x</div>", Toks: []string{`attrs`}},
	{Name: "onclick", Pre: "\t<button onclick={", Post: "}>x</button>", Toks: []string{`js(`, `)`}},
	{Name: "href", Pre: "\t<a href={", Post: "}>x</a>", Toks: []string{`templ.URL(`, `s`, `)`}},
	{Name: "text", Pre: "\t<p>{", Post: "}</p>", Toks: []string{`s`, `+`, `s`}},
	{Name: "text-call", Pre: "\t{", Post: "}", Toks: []string{`up(`, `s`, `,`, `"x"`, `,`, `)`}},
	{Name: "call-args", Pre: "\t@c2(", Post: ")", Toks: []string{`s`, `,`, `b`}},
	{Name: "call-args-comma", Pre: "\t@c2(", Post: ")", Toks: []string{`s`, `,`, `b`, `,`}},
	{Name: "call-args-block", Pre: "\t@c2(", Post: ") {\n\t\tinner\n\t}", Toks: []string{`up(`, `s`, `)`, `,`, `b`}},
	{Name: "legacy-literal", Pre: "\t{!", Post: "}", Toks: []string{`card`, `{`, `Title: "a"`, `}`}},
	{Parts: true, Name: "call-literal", Pre: "\t@", Post: "", Toks: []string{`card`, `{`, `Title: "a"`, `}`}},
	{Parts: true, Name: "call-method", Pre: "\t@", Post: "", Toks: []string{`card{Title: "a"}`, `.`, `View`, `(`, `)`}},
	{Name: "legacy-method", Pre: "\t{!", Post: "}", Toks: []string{`card{Title: s}`, `.`, `View`, `(`, `)`}},
	// raw string literals that span lines, after strings / runes / comments that hold a backtick
	{Name: "call-args-raw", Pre: "\t@c3(", Post: ")", Toks: []string{`"a"`, `,`, "`l1\nl2`"}},
	{Name: "call-args-tick-raw", Pre: "\t@c3(", Post: ")", Toks: []string{"\"t`\"", `,`, "`l1\n\tl2`", `,`}},
	{Name: "call-args-rune-raw", Pre: "\t@c3(", Post: ")", Toks: []string{"'`'", `,`, "`l1\nl2`"}},
	{Name: "call-args-raw-raw", Pre: "\t@c3(", Post: ") {\n\t\tx\n\t}", Toks: []string{"`r`", `,`, "`l1\nl2`"}},
	{Name: "attr-tick-raw", Pre: "\t<div title={", Post: "}>x</div>", Toks: []string{`up(`, "\"t`\"", `,`, "`l1\nl2`", `)`}},
	{Name: "text-tick-raw", Pre: "\t{", Post: "}", Toks: []string{`up(`, "\"t`\"", `,`, "`l1\n  l2`", `)`}},
	{Name: "raw-go-tick-raw", Pre: "\t{{", Post: "}}\n\t{ v }", Toks: []string{`v`, `:=`, `up(`, "\"t`\"", `,`, "`l1\nl2`", `)`}},
	// a one-line expression that gofmt writes over several lines
	{Name: "spreading-attr", Pre: "\t<div title={", Post: "}>x</div>", Toks: []string{spreading}},
	{Name: "spreading-attr-two", Pre: "\t<div id=\"i\" title={", Post: "} lang=\"en\">x</div>", Toks: []string{spreading}},
	{Name: "spreading-text", Pre: "\t<p>{", Post: "}</p>", Toks: []string{spreading}},
	{Name: "spreading-text-alone", Pre: "\t{", Post: "}", Toks: []string{spreading}},
	{Name: "spreading-call-arg", Pre: "\t@c2(", Post: ", b)", Toks: []string{spreading}},
	{Name: "spreading-legacy-arg", Pre: "\t{! c2(", Post: ", b) }", Toks: []string{spreading}},
	{Name: "spreading-class", Pre: "\t<div class={", Post: ", \"a\" }>x</div>", Toks: []string{spreading}},
	{Name: "spreading-style", Pre: "\t<div style={", Post: "}>x</div>", Toks: []string{spreading}},
	{Name: "spreading-href", Pre: "\t<a href={ templ.URL(", Post: ") }>x</a>", Toks: []string{spreading}},
	{Name: "spreading-bool-attr", Pre: "\t<input disabled?={", Post: "== \"a\" }/>", Toks: []string{spreading}},
	{Name: "spreading-if", Pre: "\tif ", Post: " == \"a\" {\n\t\tyes\n\t}", Toks: []string{spreading}},
	{Name: "spreading-else-if", Pre: "\tif b {\n\t\tyes\n\t} else if ", Post: " == \"a\" {\n\t\tno\n\t}", Toks: []string{spreading}},
	{Name: "spreading-switch", Pre: "\tswitch ", Post: " {\n\t\tcase \"a\":\n\t\t\tone\n\t}", Toks: []string{spreading}},
	{Name: "spreading-case", Pre: "\tswitch s {\n\t\tcase ", Post: ":\n\t\t\tone\n\t}", Toks: []string{spreading}},
	{Name: "spreading-for", Pre: "\tfor _, x := range []string{", Post: "} {\n\t\t{ x }\n\t}", Toks: []string{spreading}},
	{Name: "spreading-raw-go", Pre: "\t{{ v := ", Post: " }}\n\t{ v }", Toks: []string{spreading}},
	{Name: "spreading-cond-attr", Pre: "\t<div if ", Post: " == \"a\" { class=\"a\" }>x</div>", Toks: []string{spreading}},
	{Name: "spreading-child", Pre: "\t<div><span title={", Post: "}>t</span></div>", Toks: []string{spreading}},
	{Name: "cond-attr-child", Pre: "\t<div><span if ", Post: "{ class=\"a\" }>t</span> tail</div>", Toks: []string{`b`}},
	{Name: "cond-attr-grandchild", Pre: "\t<p><b><a if ", Post: "{ href=\"/\" }>t</a></b></p>", Toks: []string{`b`}},
	{Name: "cond-attr-script", Pre: "\t<script if ", Post: "{ defer }>var a = 1;</script>", Toks: []string{`b`}},
	{Name: "cond-attr-script-child", Pre: "\t<div><script if ", Post: "{ defer }>var a = 1;</script></div>", Toks: []string{`b`}},
	{Name: "cond-attr-style", Pre: "\t<style if ", Post: "{ media=\"print\" }>p { margin: 0 }</style>", Toks: []string{`b`}},
	{Name: "cond-attr-void-child", Pre: "\t<p><input if ", Post: "{ disabled }/> tail</p>", Toks: []string{`b`}},
	{Name: "spreading-script-attr", Pre: "\t<script data-x={", Post: "}>var a = 1;</script>", Toks: []string{spreading}},
	{Name: "spreading-void-child", Pre: "\t<p>head <input value={", Post: "}/></p>", Toks: []string{spreading}},
	{Name: "func-literal-call", Pre: "\t@func() templ.Component {", Post: "}()", Toks: []string{`return`, `templ.NopComponent`}},
	{Name: "func-literal-arg", Pre: "\t@c2(func() string {", Post: "}(), b)", Toks: []string{`return`, `s`}},
	// block comments inside expressions, calls whose parentheses span lines
	{Name: "legacy-comment", Pre: "\t{!", Post: "}", Toks: []string{`c()`, `/* c */`}},
	{Name: "legacy-comment-first", Pre: "\t{!", Post: "}", Toks: []string{`/* c */`, `c()`}},
	{Name: "text-comment", Pre: "\t<p>{", Post: "}</p>", Toks: []string{`s`, `/* c */`}},
	{Name: "attr-comment", Pre: "\t<div title={", Post: "}>x</div>", Toks: []string{`s`, `/* c */`}},
	{Name: "call-comment", Pre: "\t@c2(", Post: ")", Toks: []string{`s`, `,`, `/* c */`, `b`}},
	{Name: "if-comment", Pre: "\tif ", Post: "{\n\t\tyes\n\t}", Toks: []string{`b`, `/* c */`}},
	{Name: "raw-go-comment", Pre: "\t{{", Post: "}}", Toks: []string{`_ = s`, `/* c */`}},
	{Name: "raw-go-call", Pre: "\t{{", Post: "}}", Toks: []string{`_ =`, `up(`, `s`, `,`, `)`}},
	{Name: "raw-go-call-child", Pre: "\t<p>{{", Post: "}}</p>", Toks: []string{`_ =`, `up(`, `s`, `)`}},
	{Name: "raw-go-if-child", Pre: "\t<p>{{", Post: "}}</p>", Toks: []string{`if b {`, `_ = s`, `}`}},
	{Name: "raw-go-var-child", Pre: "\t<p>{{", Post: "}}{ v }</p>", Toks: []string{`var (`, `v = s`, `)`}},
	// line comments inside expressions (the comment ends with its line)
	{Name: "attr-line-comment", Pre: "\t<div title={", Post: "}>x</div>", Toks: []string{`s`, `,`, "// c\n"}},
	{Name: "attr-line-comment-mid", Pre: "\t<div title={", Post: "}>x</div>", Toks: []string{`up(`, `s`, `,`, "// c\n", `"x"`, `)`}},
	{Name: "class-line-comment", Pre: "\t<div class={", Post: "}>x</div>", Toks: []string{`"a"`, `,`, "// c\n", `"b"`}},
	{Name: "call-line-comment", Pre: "\t@c2(", Post: ")", Toks: []string{`s`, `,`, "// c\n", `b`}},
	{Name: "text-line-comment", Pre: "\t<p>{", Post: "}</p>", Toks: []string{`s`, "// c\n"}},
	{Name: "text-line-comment-mid", Pre: "\t<p>{", Post: "}</p>", Toks: []string{`up(`, `s`, `,`, "// c\n", `)`}},
	{Name: "if-line-comment", Pre: "\tif b {", Post: "\n\t}", Toks: []string{"// c\n", `yes`}},
	{Name: "raw-go-line-comment", Pre: "\t{{", Post: "}}", Toks: []string{`_ = s`, "// c\n"}},
	{Name: "legacy-line-comment", Pre: "\t{!", Post: "}", Toks: []string{`c()`, "// c\n"}},
	// a carriage return that is not part of CR LF (old Mac line ends, a stray control character)
	{Name: "lone-cr-after-expr", Pre: "\t<span>", Post: "</span>", Toks: []string{`{ s }`, "\r"}},
	{Name: "lone-cr-after-element", Pre: "\t<p>", Post: "</p>", Toks: []string{`<b>x</b>`, "\r", `tail`}},
	{Name: "lone-cr-after-raw-go", Pre: "\t<p>", Post: "</p>", Toks: []string{`{{ v := s }}`, "\r", `{ v }`}},
	{Name: "lone-cr-in-attrs", Pre: "\t<div", Post: ">x</div>", Toks: []string{"\r", `id="i"`, "\r", `title={ s }`}},
	{Name: "lone-cr-in-expr", Pre: "\t<p>{", Post: "}</p>", Toks: []string{`s`, "\r", `+`, `s`}},
	{Name: "lone-cr-after-call", Pre: "\t<div>", Post: "</div>", Toks: []string{`@c()`, "\r", `x`}},
	{Name: "raw-go", Pre: "\t{{", Post: "}}\n\t{ v }", Toks: []string{`v`, `:=`, `s`}},
	{Name: "raw-go-two", Pre: "\t{{", Post: "}}\n\t{ v }", Toks: []string{`v`, `:=`, `up(`, `s`, `)`, `;`, `_ = v`}},
	{Name: "if", Pre: "\tif ", Post: "{\n\t\tyes\n\t}", Toks: []string{`b`, `&&`, `len(xs) > 0`}},
	{Name: "if-call", Pre: "\tif ", Post: "{\n\t\tyes\n\t}", Toks: []string{`up(`, `s`, `)`, `==`, `"a"`}},
	{Name: "else-if", Pre: "\tif b {\n\t\tyes\n\t} else if ", Post: "{\n\t\tno\n\t}", Toks: []string{`!b`, `||`, `s == "x"`}},
	{Name: "for", Pre: "\tfor ", Post: "{\n\t\t{ x }\n\t}", Toks: []string{`_, x`, `:=`, `range`, `xs`}},
	{Name: "for-3", Pre: "\tfor ", Post: "{\n\t\ti\n\t}", Toks: []string{`i := 0`, `;`, `i < 2`, `;`, `i++`}},
	{Name: "switch", Pre: "\tswitch ", Post: "{\n\t\tcase \"a\":\n\t\t\tone\n\t}", Toks: []string{`up(`, `s`, `)`}},
	{Name: "case", Pre: "\tswitch s {\n\t\tcase ", Post: ":\n\t\t\tone\n\t}", Toks: []string{`"a"`, `,`, `"b"`}},
	{Name: "cond-attr", Pre: "\t<div if ", Post: "{ class=\"a\" }>x</div>", Toks: []string{`b`, `&&`, `b`}},
	{Name: "cond-attr-body", Pre: "\t<div if b {", Post: "}>x</div>", Toks: []string{`class="a"`, `id="i"`}},
	{Name: "attrs", Pre: "\t<div", Post: ">x</div>", Toks: []string{`id="i"`, `title={ s }`, `hidden`}},
	{Name: "attrs-void", Pre: "\t<input", Post: "/>", Toks: []string{`type="text"`, `value={ s }`}},
	{Name: "attrs-cond", Pre: "\t<div", Post: ">x</div>", Toks: []string{`id="i"`, `if b { class="a" }`, `{ attrs... }`}},
	// the parts of one construct: blanks and line breaks between a name and its "=", inside tags,
	// around "else", "case", "@" ...
	{Parts: true, Name: "attr-parts", Pre: "\t<div ", Post: ">x</div>", Toks: []string{`title`, `=`, `{`, `s`, `}`}},
	{Parts: true, Name: "attr-parts-const", Pre: "\t<a ", Post: ">x</a>", Toks: []string{`href`, `=`, `"/"`, `class`, `=`, `"c"`}},
	{Parts: true, Name: "attr-parts-bool", Pre: "\t<input ", Post: "/>", Toks: []string{`disabled`, `?=`, `{`, `b`, `}`}},
	{Parts: true, Name: "attr-parts-cond", Pre: "\t<div ", Post: ">x</div>", Toks: []string{`if`, `b`, `{`, `class`, `=`, `"a"`, `}`}},
	{Parts: true, Name: "tag-parts", Pre: "\t", Post: "x</div>", Toks: []string{`<`, `div`, `id="i"`, `>`}},
	{Parts: true, Name: "void-tag-parts", Pre: "\t", Post: "", Toks: []string{`<`, `br`, `/`, `>`}},
	{Parts: true, Name: "end-tag-parts", Pre: "\t<div>x", Post: "", Toks: []string{`<`, `/`, `div`, `>`}},
	{Parts: true, Name: "call-parts", Pre: "\t", Post: "", Toks: []string{`@`, `c2(s, b)`, `{`, `inner`, `}`}},
	{Parts: true, Name: "children-parts", Pre: "\t<div>", Post: "</div>", Toks: []string{`{`, `children`, `...`, `}`}},
	{Parts: true, Name: "spread-parts", Pre: "\t<div ", Post: ">x</div>", Toks: []string{`{`, `attrs`, `...`, `}`}},
	{Parts: true, Name: "else-parts", Pre: "\tif b {\n\t\tyes\n\t", Post: "\n\t\tno\n\t}", Toks: []string{`}`, `else`, `{`}},
	{Parts: true, Name: "else-if-parts", Pre: "\tif b {\n\t\tyes\n\t", Post: "\n\t\tno\n\t}", Toks: []string{`}`, `else`, `if`, `!b`, `{`}},
	{Parts: true, Name: "case-parts", Pre: "\tswitch s {\n\t\t", Post: "\n\t\t\tone\n\t}", Toks: []string{`case`, `"a"`, `:`}},
	{Parts: true, Name: "default-parts", Pre: "\tswitch s {\n\t\t", Post: "\n\t\t\tone\n\t}", Toks: []string{`default`, `:`}},
	{Parts: true, Name: "comment-parts", Pre: "\t<div>", Post: "</div>", Toks: []string{`<!--`, `c`, `-->`}},
	{Parts: true, Name: "legacy-call-parts", Pre: "\t", Post: "", Toks: []string{`{`, `!`, `c()`, `}`}},
	{Parts: true, Name: "raw-go-parts", Pre: "\t", Post: "\n\t{ v }", Toks: []string{`{`, `{`, `v := s`, `}`, `}`}},
	{Parts: true, Name: "templ-parts", Top: true, Pre: "", Post: "\n\t<i></i>\n}\n", Toks: []string{`templ`, `L`, `(`, `)`, `{`}},
	{Parts: true, Name: "css-parts", Top: true, Pre: "", Post: "\n\tcolor: red;\n}\n", Toks: []string{`css`, `k`, `(`, `)`, `{`}},
	{Parts: true, Name: "css-prop-parts", Top: true, Pre: "css k() {\n\t", Post: "\n}\n", Toks: []string{`color`, `:`, `red`, `;`}},
	{Parts: true, Name: "script-parts", Top: true, Pre: "", Post: "\n\tconsole.log(a);\n}\n", Toks: []string{`script`, `j`, `(`, `a string`, `)`, `{`}},
	// braces inside a signature; pairs of declarations that agree up to the brace and have the same length
	{Name: "params-brace", Top: true, Pre: "templ L(", Post: ") {\n\t<i></i>\n}\n", Toks: []string{`v interface{}`, `,`, `a string`}},
	{Name: "params-brace-other", Top: true, Pre: "templ L(", Post: ") {\n\t<i></i>\n}\n", Toks: []string{`v interface{}`, `,`, `b string`}},
	{Name: "params-struct", Top: true, Pre: "templ L(", Post: ") {\n\t<i>{ n }</i>\n}\n", Toks: []string{`m map[string]struct{}`, `,`, `n string`}},
	{Name: "params-struct-other", Top: true, Pre: "templ L(", Post: ") {\n\t<i>{ k }</i>\n}\n", Toks: []string{`m map[string]struct{}`, `,`, `k string`}},
	{Name: "receiver-brace", Top: true, Pre: "templ (", Post: ") M(a string) {\n\t<i></i>\n}\n", Toks: []string{`r`, `recv`}},
	{Name: "receiver-brace-other", Top: true, Pre: "templ (", Post: ") M(b string) {\n\t<i></i>\n}\n", Toks: []string{`r`, `recv`}},
	{Name: "css-params", Top: true, Pre: "css k(", Post: ") {\n\tcolor: red;\n}\n", Toks: []string{`v interface{}`, `,`, `a string`}},
	{Name: "css-params-other", Top: true, Pre: "css k(", Post: ") {\n\tcolor: red;\n}\n", Toks: []string{`v interface{}`, `,`, `b string`}},
	// another expression on the line where a multi-line expression ends
	{Name: "call-multiline-then-child", Pre: "\t@c2(up(", Post: "), b) { <b>{ s }</b> }", Toks: []string{`s`, `,`, `"x"`}},
	{Name: "attr-multiline-then-class", Pre: "\t<div id={ up(", Post: ") } class={ s }>x</div>", Toks: []string{`s`, `,`, `"x"`}},
	{Name: "attr-multiline-then-attrs", Pre: "\t<div title={ up(", Post: ") } lang={ s } hidden?={ b }>{ s }</div>", Toks: []string{`s`, `,`, `"x"`}},
	// white space in front of the closing brace of a script / css template
	{Name: "script-close-brace", Top: true, Pre: "script j(a string) {\n\t", Post: "\n", Toks: []string{`console.log(a);`, "\n", "\t", `}`}},
	{Name: "css-close-brace", Top: true, Pre: "css k() {\n\t", Post: "\n", Toks: []string{`color: red;`, "\n", "\t", `}`}},
	{Name: "params", Top: true, Pre: "templ L(", Post: ") {\n\t<i></i>\n}\n", Toks: []string{`s`, `string`, `,`, `b`, `bool`}},
	{Name: "params-comma", Top: true, Pre: "templ L(", Post: ") {\n\t<i></i>\n}\n", Toks: []string{`s, t string`, `,`, `b bool`, `,`}},
	{Name: "css-prop", Top: true, Pre: "css k(w string) {\n\tcolor: red;\n\twidth: {", Post: "};\n}\n", Toks: []string{`up(`, `w`, `)`}},
	{Name: "script-params", Top: true, Pre: "script j(", Post: ") {\n\tconsole.log(a);\n}\n", Toks: []string{`a`, `string`, `,`, `n`, `int`}},
	{Name: "receiver", Top: true, Pre: "templ (", Post: ") M() {\n\t<i></i>\n}\n", Toks: []string{`r`, `recv`}},
}

// spreading is written on one line; gofmt writes the struct type over four.
const spreading = `struct{ A string; B int }{A: s}.A`

const layoutHeader = "func up(a string, more ...string) string {\n\treturn a\n}\n\ntype recv struct{}\n\ntempl c2(a string, b bool) {\n\t<i>{ a }{ children... }</i>\n}\n\ntempl c3(a any, b string) {\n\t<i>{ b }{ children... }</i>\n}\n\n"

// QuickGaps / ThoroughGaps are the gap alphabets. Gaps between attributes and parameters that must be
// whitespace are simply rejected by the parser when spelled "".
var QuickGaps = []string{"", " ", "\n"}
var ThoroughGaps = []string{"", " ", "\n", "\t", "\n\n", "\n\t\t"}

// EachLayout calls f with every member of the layout family over the given gap alphabet; shard i of n.
func EachLayout(i, n int, gaps []string, f func(name, src string)) {
	EachLayoutX(i, n, gaps, func(l Layout, varied, src string) { f(l.Name, src) })
}

// EachLayoutX is EachLayout with the layout and the varied text (tokens and gaps) handed over too.
func EachLayoutX(i, n int, gaps []string, f func(l Layout, varied, src string)) {
	k := 0
	for _, l := range Layouts {
		places := len(l.Toks) + 1
		// the longest layouts get a shorter alphabet, so that no single layout has more than about
		// half a million spellings
		gaps := gaps
		count := func() int {
			total := 1
			for p := 0; p < places; p++ {
				total *= len(gaps)
			}
			return total
		}
		for count() > 600000 && len(gaps) > 3 {
			gaps = gaps[:len(gaps)-1]
		}
		total := count()
		for code := 0; code < total; code++ {
			k++
			if k%n != i {
				continue
			}
			var sb strings.Builder
			c := code
			for p := 0; p < places; p++ {
				sb.WriteString(gaps[c%len(gaps)])
				c /= len(gaps)
				if p < len(l.Toks) {
					sb.WriteString(l.Toks[p])
				}
			}
			body := l.Pre + sb.String() + l.Post
			var src string
			if l.Top {
				src = header + layoutHeader + body + "\n" + "templ T(s string, b bool, xs []string, attrs templ.Attributes) {\n\t<i></i>\n}\n"
			} else {
				src = header + layoutHeader + "templ T(s string, b bool, xs []string, attrs templ.Attributes) {\n" + body + "\n}\n"
			}
			f(l, sb.String(), src)
		}
	}
}

// SameTokens reports whether the varied text still reads as the layout's tokens: a spelling without
// a blank between two words ("sstring") is a different program, written by a different author.
// A semicolon the Go scanner inserts at a line end inside the text counts as a token ("return" and
// a line break is another statement than "return x"); one after the last token does not.
func SameTokens(l Layout, varied string) bool {
	return strings.Join(goTokens(strings.Join(l.Toks, " ")), "\x00") == strings.Join(goTokens(varied), "\x00")
}

func goTokens(src string) []string {
	var s scanner.Scanner
	fset := token.NewFileSet()
	file := fset.AddFile("", fset.Base(), len(src))
	s.Init(file, []byte(src), func(token.Position, string) {}, 0)
	var out []string
	for {
		_, tok, lit := s.Scan()
		if tok == token.EOF {
			break
		}
		if lit == "" {
			lit = tok.String()
		}
		out = append(out, lit)
	}
	// a line break after the last token ends nothing that was not ended anyway
	for len(out) > 0 && out[len(out)-1] == "\n" {
		out = out[:len(out)-1]
	}
	return out
}

// Wrappers nest a body one level deeper.
var Wrappers = [][2]string{
	{"if b {", "}"},
	{"for i := 0; i < 1; i++ {", "}"},
	{"switch s {\ncase \"a\":", "}"},
	{"<div>", "</div>"},
	{"@c() {", "}"},
	{"<span>", "</span>"},
	{"if !b {\nno\n} else {", "}"},
}

// EachDeep calls f with every layout (tokens separated by one blank) nested 0..maxDepth levels deep
// inside each kind of wrapper and inside a rotation of all of them; shard i of n.
func EachDeep(i, n, maxDepth int, f func(name, src string)) {
	k := 0
	for _, l := range Layouts {
		if l.Top || l.Parts {
			continue
		}
		inner := strings.TrimPrefix(l.Pre, "\t") + strings.Join(l.Toks, " ") + l.Post
		for w := 0; w <= len(Wrappers); w++ {
			for depth := 0; depth <= maxDepth; depth++ {
				k++
				if k%n != i {
					continue
				}
				var open, closing []string
				for d := 0; d < depth; d++ {
					wr := Wrappers[(d+w)%len(Wrappers)]
					if w < len(Wrappers) {
						wr = Wrappers[w]
					}
					ind := strings.Repeat("\t", d+1)
					open = append(open, ind+strings.ReplaceAll(wr[0], "\n", "\n"+ind))
					closing = append([]string{ind + wr[1]}, closing...)
				}
				body := strings.Join(open, "\n")
				if body != "" {
					body += "\n"
				}
				body += strings.Repeat("\t", depth+1) + inner
				if len(closing) > 0 {
					body += "\n" + strings.Join(closing, "\n")
				}
				src := header + layoutHeader + "templ T(s string, b bool, xs []string, attrs templ.Attributes) {\n" + body + "\n}\n"
				f(l.Name, src)
			}
		}
	}
}
