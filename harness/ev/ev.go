// Package ev is the evidence recorder, violation/replay file writer and known-findings
// reader shared by every check. A check's test binary writes one JSON file per recorder into
// $VERIF_OUT; the driver (/verif/check) merges them into /verif/evidence/<id>.json.
package ev

import (
	"encoding/binary"
	"encoding/json"
	"fmt"
	"hash/fnv"
	"os"
	"path/filepath"
	"sort"
	"strconv"
	"strings"
	"sync"
)

// Failer is the part of *testing.T / *rapid.T the recorder needs.
type Failer interface {
	Fatalf(format string, args ...any)
	Helper()
}

type Recorder struct {
	mu         sync.Mutex
	Property   string
	Check      string
	Rule       string
	evals      int64
	nt         map[uint64]struct{}
	classes    map[string]int64
	excluded   map[string]int64
	samples    []any
	ntSeen     int64
	extra      map[string]any
	inconcl    int64
	viol       int
	enumerated int64
}

var (
	allMu sync.Mutex
	all   []*Recorder
)

// New registers a recorder for one check (one oracle) of one property.
func New(property, check, rule string) *Recorder {
	r := &Recorder{Property: property, Check: check, Rule: rule,
		nt: map[uint64]struct{}{}, classes: map[string]int64{}, excluded: map[string]int64{}, extra: map[string]any{}}
	allMu.Lock()
	all = append(all, r)
	allMu.Unlock()
	return r
}

func Tier() string {
	if t := os.Getenv("VERIF_TIER"); t == "thorough" {
		return "thorough"
	}
	return "quick"
}

func Thorough() bool { return Tier() == "thorough" }

// Pick returns q in the quick tier and t in the thorough tier.
func Pick(q, t int) int {
	if Thorough() {
		return t
	}
	return q
}

func outDir() string {
	d := os.Getenv("VERIF_OUT")
	if d == "" {
		d = os.TempDir()
	}
	return d
}

// Eval counts n oracle decisions.
func (r *Recorder) Eval(n int) {
	r.mu.Lock()
	r.evals += int64(n)
	r.mu.Unlock()
}

func hash(s string) uint64 {
	h := fnv.New64a()
	h.Write([]byte(s))
	return h.Sum64()
}

// NonTrivial records a case that is non-trivial by the check's rule; key identifies the case so
// that duplicates are counted once. sample (may be nil) is a printable form of the case; a
// bounded, deterministic selection of samples is kept.
func (r *Recorder) NonTrivial(key string, sample func() any) {
	h := hash(key)
	r.mu.Lock()
	defer r.mu.Unlock()
	if _, ok := r.nt[h]; ok {
		return
	}
	r.nt[h] = struct{}{}
	r.ntSeen++
	n := r.ntSeen
	// keep the first 4, then every power of two: a spread over the whole run, at most ~30.
	if sample != nil && len(r.samples) < 24 && (n <= 4 || n&(n-1) == 0) {
		r.samples = append(r.samples, sample())
	}
}

// Class adds to the generator-health histogram.
func (r *Recorder) Class(name string) {
	r.mu.Lock()
	r.classes[name]++
	r.mu.Unlock()
}

func (r *Recorder) ClassN(name string, n int) {
	r.mu.Lock()
	r.classes[name] += int64(n)
	r.mu.Unlock()
}

// Sample stores a case unconditionally (bounded).
func (r *Recorder) Sample(v any) {
	r.mu.Lock()
	if len(r.samples) < 24 {
		r.samples = append(r.samples, v)
	}
	r.mu.Unlock()
}

// Excluded counts a case that fell into a listed known-finding class and was therefore not
// treated as a violation.
func (r *Recorder) Excluded(key string) {
	r.mu.Lock()
	r.excluded[key]++
	r.mu.Unlock()
}

// Inconclusive counts a case whose budget ran out.
func (r *Recorder) Inconclusive() {
	r.mu.Lock()
	r.inconcl++
	r.mu.Unlock()
}

func (r *Recorder) Set(key string, v any) {
	r.mu.Lock()
	r.extra[key] = v
	r.mu.Unlock()
}

// ReplayFile is the on-disk form of one case.
type ReplayFile struct {
	Property string          `json:"property"`
	Check    string          `json:"check"`
	Case     json.RawMessage `json:"case"`
	Expect   string          `json:"expect,omitempty"` // "violation" for open findings, "ok" for fixed ones
	Note     string          `json:"note,omitempty"`
}

// WriteViolation stores the case as the current violation candidate of this check. rapid calls the
// property again and again while shrinking, and once more with the minimal case at the end, so the
// file left behind is the shrunk reproduction.
func (r *Recorder) WriteViolation(c any, msg string) string {
	raw, err := json.Marshal(c)
	if err != nil {
		raw, _ = json.Marshal(fmt.Sprintf("%#v", c))
	}
	rf := ReplayFile{Property: r.Property, Check: r.Check, Case: raw, Expect: "violation", Note: msg}
	b, _ := json.MarshalIndent(rf, "", " ")
	p := filepath.Join(outDir(), "viol-"+r.Check+".json")
	_ = os.WriteFile(p, append(b, '\n'), 0o644)
	r.mu.Lock()
	r.viol++
	r.mu.Unlock()
	return p
}

// Fail writes the violation candidate and fails the test.
func (r *Recorder) Fail(t Failer, c any, format string, args ...any) {
	t.Helper()
	msg := fmt.Sprintf(format, args...)
	r.WriteViolation(c, msg)
	t.Fatalf("%s: %s", r.Check, msg)
}

type dump struct {
	Property     string           `json:"property"`
	Check        string           `json:"check"`
	Rule         string           `json:"rule"`
	Evaluations  int64            `json:"evaluations"`
	Hashes       string           `json:"hashes_file"`
	Classes      map[string]int64 `json:"classes"`
	Excluded     map[string]int64 `json:"excluded"`
	Samples      []any            `json:"samples"`
	Extra        map[string]any   `json:"extra"`
	Inconclusive int64            `json:"inconclusive"`
	Enumerated   int64            `json:"enumerated"`
}

// FlushAll writes every recorder to $VERIF_OUT. Call from TestMain after m.Run().
func FlushAll() {
	allMu.Lock()
	defer allMu.Unlock()
	for i, r := range all {
		r.mu.Lock()
		base := fmt.Sprintf("ev-%s-%d-%d", r.Check, os.Getpid(), i)
		hs := make([]uint64, 0, len(r.nt))
		for h := range r.nt {
			hs = append(hs, h)
		}
		sort.Slice(hs, func(a, b int) bool { return hs[a] < hs[b] })
		buf := make([]byte, 8*len(hs))
		for j, h := range hs {
			binary.LittleEndian.PutUint64(buf[8*j:], h)
		}
		hp := filepath.Join(outDir(), base+".hashes")
		_ = os.WriteFile(hp, buf, 0o644)
		d := dump{Property: r.Property, Check: r.Check, Rule: r.Rule, Evaluations: r.evals, Hashes: hp,
			Classes: r.classes, Excluded: r.excluded, Samples: r.samples, Extra: r.extra, Inconclusive: r.inconcl, Enumerated: r.enumerated}
		b, _ := json.Marshal(d)
		_ = os.WriteFile(filepath.Join(outDir(), base+".json"), b, 0o644)
		r.mu.Unlock()
	}
}

// ---- known findings ----

type Finding struct {
	Property string `json:"property"`
	Key      string `json:"key"`
	Replay   string `json:"replay"`
	Status   string `json:"status"`
	What     string `json:"what"`
}

type knownFile struct {
	Findings []Finding `json:"findings"`
}

var (
	knownOnce sync.Once
	known     map[string]bool
)

// IsOpenFinding reports whether key is listed as an open finding of the property in
// known_findings.json ($VERIF_KNOWN, default /verif/known_findings.json).
func IsOpenFinding(property, key string) bool {
	knownOnce.Do(func() {
		known = map[string]bool{}
		p := os.Getenv("VERIF_KNOWN")
		if p == "" {
			p = "/verif/known_findings.json"
		}
		b, err := os.ReadFile(p)
		if err != nil {
			return
		}
		var kf knownFile
		if json.Unmarshal(b, &kf) != nil {
			return
		}
		for _, f := range kf.Findings {
			if f.Status == "" || f.Status == "open" {
				known[f.Property+"/"+f.Key] = true
			}
		}
	})
	return known[property+"/"+key]
}

// ---- replay ----

type ReplayFunc func(raw json.RawMessage) error

var replayFuncs = map[string]ReplayFunc{}

func RegisterReplay(check string, f ReplayFunc) { replayFuncs[check] = f }

type ReplayResult struct {
	Path   string `json:"path"`
	Check  string `json:"check"`
	Failed bool   `json:"failed"`
	Msg    string `json:"msg"`
	Error  string `json:"error,omitempty"` // infrastructure problem (unknown check, bad file)
}

// RunReplays re-evaluates the files named in $VERIF_REPLAYS (':'-separated) with the registered
// oracle functions - no rapid involved - and writes $VERIF_OUT/replay-results.json.
func RunReplays() []ReplayResult {
	var res []ReplayResult
	for _, p := range strings.Split(os.Getenv("VERIF_REPLAYS"), ":") {
		if p == "" {
			continue
		}
		rr := ReplayResult{Path: p}
		b, err := os.ReadFile(p)
		var rf ReplayFile
		if err == nil {
			err = json.Unmarshal(b, &rf)
		}
		if err != nil {
			rr.Error = err.Error()
			res = append(res, rr)
			continue
		}
		rr.Check = rf.Check
		f, ok := replayFuncs[rf.Check]
		if !ok {
			rr.Error = "no replay function for check " + rf.Check
			res = append(res, rr)
			continue
		}
		func() {
			defer func() {
				if x := recover(); x != nil {
					rr.Failed = true
					rr.Msg = fmt.Sprintf("panic: %v", x)
				}
			}()
			if err := f(rf.Case); err != nil {
				rr.Failed = true
				rr.Msg = err.Error()
			}
		}()
		res = append(res, rr)
	}
	b, _ := json.MarshalIndent(res, "", " ")
	_ = os.WriteFile(filepath.Join(outDir(), "replay-results.json"), b, 0o644)
	return res
}

// QStr is a string that survives JSON byte-for-byte (invalid UTF-8, controls): it is stored as a
// Go-quoted ASCII literal.
type QStr string

func (q QStr) MarshalJSON() ([]byte, error) {
	return json.Marshal(strconv.QuoteToASCII(string(q)))
}

func (q *QStr) UnmarshalJSON(b []byte) error {
	var s string
	if err := json.Unmarshal(b, &s); err != nil {
		return err
	}
	u, err := strconv.Unquote(s)
	if err != nil {
		return err
	}
	*q = QStr(u)
	return nil
}

// Shard returns this process's shard index and the shard count.
func Shard() (int, int) {
	i, _ := strconv.Atoi(os.Getenv("VERIF_SHARD"))
	n, _ := strconv.Atoi(os.Getenv("VERIF_SHARDS"))
	if n <= 0 {
		return 0, 1
	}
	return i, n
}

// Enumerated adds n cases that are non-trivial and distinct by construction (an enumeration that
// never repeats a case and is partitioned across shards), without storing a hash per case.
func (r *Recorder) Enumerated(n int64) {
	r.mu.Lock()
	r.enumerated += n
	r.mu.Unlock()
}

var raceSeen int64

// RaceCheck returns the text the race detector has logged since the previous call ("" when
// nothing new, or when the process does not log race reports to a file: VERIF_RACE_LOG). The Go
// runtime appends ".<pid>" to the log path.
func RaceCheck() string {
	base := os.Getenv("VERIF_RACE_LOG")
	if base == "" {
		return ""
	}
	b, err := os.ReadFile(fmt.Sprintf("%s.%d", base, os.Getpid()))
	if err != nil || int64(len(b)) <= raceSeen {
		return ""
	}
	text := string(b[raceSeen:])
	raceSeen = int64(len(b))
	if len(text) > 6000 {
		text = text[:6000] + "..."
	}
	return text
}
