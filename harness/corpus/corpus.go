// Package corpus loads the seed inputs for the parser/formatter checks from /repo's working tree:
// every .templ file and the in/out sections of parser/v2/formattestdata.
package corpus

import (
	"io/fs"
	"os"
	"path/filepath"
	"sort"
	"strings"
	"sync"
)

type Seed struct {
	Name string
	Text string
}

var (
	once  sync.Once
	seeds []Seed
)

func repo() string {
	if r := os.Getenv("VERIF_REPO"); r != "" {
		return r
	}
	return "/repo"
}

// Seeds returns the corpus (files up to 16 KiB), sorted by name.
func Seeds() []Seed {
	once.Do(func() {
		_ = filepath.WalkDir(repo(), func(p string, d fs.DirEntry, err error) error {
			if err != nil {
				return nil
			}
			if d.IsDir() && (d.Name() == ".git" || d.Name() == "node_modules") {
				return filepath.SkipDir
			}
			if d.IsDir() {
				return nil
			}
			rel, _ := filepath.Rel(repo(), p)
			switch {
			case strings.HasSuffix(p, ".templ"):
				if b, err := os.ReadFile(p); err == nil && len(b) <= 16<<10 {
					seeds = append(seeds, Seed{Name: rel, Text: string(b)})
				}
			case strings.Contains(p, "formattestdata") && strings.HasSuffix(p, ".txt"):
				if b, err := os.ReadFile(p); err == nil {
					s := strings.ReplaceAll(string(b), "\r\n", "\n")
					if i := strings.Index(s, "-- in --\n"); i >= 0 {
						rest := s[i+len("-- in --\n"):]
						if j := strings.Index(rest, "-- out --\n"); j >= 0 {
							seeds = append(seeds, Seed{Name: rel + "#in", Text: rest[:j]})
							seeds = append(seeds, Seed{Name: rel + "#out", Text: rest[j+len("-- out --\n"):]})
						}
					}
				}
			}
			return nil
		})
		sort.Slice(seeds, func(i, j int) bool { return seeds[i].Name < seeds[j].Name })
	})
	return seeds
}
