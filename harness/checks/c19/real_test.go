package c19

import (
	"bufio"
	"context"
	"encoding/json"
	"fmt"
	"net/http"
	"net/http/httptest"
	"strings"
	"sync"
	"testing"
	"time"

	"github.com/a-h/templ/cmd/templ/generatecmd/sse"

	"verif/ev"
)

// RealCase: browsers on real connections (net/http server and client over loopback) that stay
// connected across keep-alive pings; broadcasts are sent at the given offsets in milliseconds.
type RealCase struct {
	Clients int   `json:"clients"`
	SendAt  []int `json:"send_at_ms"`
}

var recReal = ev.New("C19", "c19.real-connection",
	"the sse handler behind a real net/http server; 1-3 clients connect over loopback and keep their stream open for 7-12 s, across at least one keep-alive ping; broadcasts are sent before and after the ping. "+
		"Oracle: every client that stays connected receives every broadcast, and its stream is not closed by the server. Non-trivial = a broadcast follows a ping that follows a broadcast on the same stream; distinct by case")

func decideReal(c RealCase) error {
	h := sse.New()
	srv := httptest.NewServer(h)
	defer srv.Close()
	ctx, cancel := context.WithCancel(context.Background())
	defer cancel()
	type client struct {
		mu     sync.Mutex
		events []string
		closed bool
	}
	clients := make([]*client, c.Clients)
	var wg sync.WaitGroup
	for i := range clients {
		cl := &client{}
		clients[i] = cl
		req, _ := http.NewRequestWithContext(ctx, "GET", srv.URL+"/_templ/reload/events", nil)
		resp, err := http.DefaultClient.Do(req)
		if err != nil {
			panic("harness: " + err.Error())
		}
		wg.Add(1)
		go func() {
			defer wg.Done()
			defer resp.Body.Close()
			sc := bufio.NewScanner(resp.Body)
			for sc.Scan() {
				if line := sc.Text(); strings.HasPrefix(line, "data: reload-") {
					cl.mu.Lock()
					cl.events = append(cl.events, strings.TrimPrefix(line, "data: "))
					cl.mu.Unlock()
				}
			}
			cl.mu.Lock()
			cl.closed = ctx.Err() == nil
			cl.mu.Unlock()
		}()
	}
	time.Sleep(100 * time.Millisecond) // registration
	start := time.Now()
	var want []string
	for k, at := range c.SendAt {
		if d := time.Duration(at)*time.Millisecond - time.Since(start); d > 0 {
			time.Sleep(d)
		}
		name := fmt.Sprintf("reload-%d", k+1)
		want = append(want, name)
		done := make(chan struct{})
		go func() { h.Send("message", name); close(done) }()
		select {
		case <-done:
		case <-time.After(5 * time.Second):
			return fmt.Errorf("Send blocked for more than 5s (broadcast %d)", k+1)
		}
	}
	time.Sleep(500 * time.Millisecond)
	var verdict error
	for i, cl := range clients {
		cl.mu.Lock()
		got, closed := append([]string(nil), cl.events...), cl.closed
		cl.mu.Unlock()
		if closed {
			verdict = fmt.Errorf("client %d never disconnected, yet the server closed its stream after it had received %v (broadcasts at %v ms: %v)", i, got, c.SendAt, want)
			break
		}
		if fmt.Sprint(got) != fmt.Sprint(want) {
			verdict = fmt.Errorf("client %d stayed connected for the whole session but received %v of the broadcasts %v (sent at %v ms)", i, got, want, c.SendAt)
			break
		}
	}
	cancel()
	wg.Wait()
	return verdict
}

func init() {
	ev.RegisterReplay("c19.real-connection", func(raw json.RawMessage) error {
		var c RealCase
		if err := json.Unmarshal(raw, &c); err != nil {
			return err
		}
		return decideReal(c)
	})
}

// TestPropRealConnections runs a handful of fixed sessions side by side (each takes 7-12 s of
// waiting for the server's 5 s keep-alive pings).
func TestPropRealConnections(t *testing.T) {
	cases := []RealCase{
		{Clients: 1, SendAt: []int{200, 6500}},
		{Clients: 2, SendAt: []int{6000}},
		{Clients: 3, SendAt: []int{100, 300, 5600, 11000}},
		{Clients: 1, SendAt: []int{4900, 5100, 10200}},
	}
	if shard, shards := ev.Shard(); shards > 1 {
		cases = cases[shard%len(cases) : shard%len(cases)+1]
	}
	var wg sync.WaitGroup
	errs := make([]error, len(cases))
	for i, c := range cases {
		wg.Add(1)
		go func() {
			defer wg.Done()
			errs[i] = decideReal(c)
		}()
	}
	wg.Wait()
	for i, c := range cases {
		recReal.Eval(1)
		recReal.NonTrivial(fmt.Sprint(c), func() any { return c })
		if errs[i] != nil {
			recReal.Fail(t, c, "%v", errs[i])
		}
	}
}
