package c19

import (
	"bytes"
	"context"
	"encoding/json"
	"fmt"
	"net/http"
	"net/http/httptest"
	"os"
	"path/filepath"
	"os/exec"
	"runtime"
	"sort"
	"strings"
	"sync"
	"testing"
	"time"

	"github.com/a-h/templ/cmd/templ/generatecmd/sse"
	"pgregory.net/rapid"

	"verif/ev"
)

func TestMain(m *testing.M) {
	code := m.Run()
	ev.FlushAll()
	os.Exit(code)
}

// Step is one operation of a plan against one sse.Handler.
//
//	sub i      client i connects; the step waits until the handler has registered it (first ping written)
//	cancel i   client i disconnects; with Wait the step waits until its server-side handler has returned
//	stall i    client i stops accepting bytes (its writes block) until the end of the plan
//	send       broadcast "reload-<k>"
//	park       deliveries started from now on are held at the hook's yield point
//	release    held deliveries continue
//	pause      yield for a millisecond
type Step struct {
	Op     string `json:"op"`
	Client int    `json:"client,omitempty"`
	Wait   bool   `json:"wait,omitempty"`
	N      int    `json:"n,omitempty"` // burst: that many broadcasts back to back
}

type Plan struct {
	Steps []Step `json:"steps"`
	Procs int    `json:"procs"`
}

var rec = ev.New("C19", "c19.churn",
	"plans of 3..25 operations (subscribe, cancel with/without waiting for the handler to exit, stall a reader, broadcast, bursts of 3-120 broadcasts back to back, several broadcasters sending concurrently, storms of 200-3000 broadcasts while 1-8 goroutines keep connecting and disconnecting clients, park/release deliveries at the verif hook's yield point, pause) over up to 5 clients of one sse.Handler, each plan executed in its own child process (a panic in a delivery goroutine cannot be recovered) built with -race; "+
		"oracle: the child survives with no panic/race/deadlock, every Send returns within 2 s, and every client that was registered and neither cancelled nor stalled receives every event broadcast while it was registered (as a multiset: order between back-to-back broadcasts is not promised). "+
		"Non-trivial = the plan cancels a client between a broadcast whose delivery is parked and its release (the 'unregistered before delivery' schedule, forced), broadcasts while a client is stalled, has several broadcasters send at once to two or more clients, or broadcasts during client churn; distinct by plan")

// ---------- the child: executes one plan ----------

type client struct {
	mu       sync.Mutex
	buf      bytes.Buffer
	writes   int
	first    chan struct{} // closed at the first write (registered)
	stalled  chan struct{} // non-nil: writes block until closed
	cancel   context.CancelFunc
	exited   chan struct{}
	header   http.Header
	gone     bool
	stallSet bool
}

func (c *client) Header() http.Header { return c.header }
func (c *client) WriteHeader(int)     {}
func (c *client) Flush()              {}
func (c *client) Write(p []byte) (int, error) {
	c.mu.Lock()
	st := c.stalled
	c.mu.Unlock()
	if st != nil {
		<-st
	}
	c.mu.Lock()
	c.buf.Write(p)
	c.writes++
	if c.writes == 1 {
		close(c.first)
	}
	c.mu.Unlock()
	return len(p), nil
}

func (c *client) events() []string {
	c.mu.Lock()
	defer c.mu.Unlock()
	var out []string
	for _, block := range strings.Split(c.buf.String(), "\n\n") {
		for _, line := range strings.Split(block, "\n") {
			if strings.HasPrefix(line, "data: reload-") {
				out = append(out, strings.TrimPrefix(line, "data: "))
			}
		}
	}
	return out
}

func runPlan(p Plan) (result string) {
	if p.Procs > 0 {
		runtime.GOMAXPROCS(p.Procs)
	}
	h := sse.New()
	var gateMu sync.Mutex
	var gate chan struct{}
	sse.VerifBeforeDeliver = func() {
		gateMu.Lock()
		g := gate
		gateMu.Unlock()
		if g != nil {
			<-g
		}
	}
	clients := map[int]*client{}
	stallAll := make(chan struct{})
	sendN := 0
	expect := map[int][]string{} // client -> events it must receive
	active := func(i int) bool {
		c := clients[i]
		return c != nil && !c.gone && !c.stallSet
	}
	for si, st := range p.Steps {
		switch st.Op {
		case "sub":
			if c := clients[st.Client]; c != nil && !c.gone {
				continue
			}
			ctx, cancel := context.WithCancel(context.Background())
			c := &client{first: make(chan struct{}), cancel: cancel, exited: make(chan struct{}), header: http.Header{}}
			clients[st.Client] = c
			delete(expect, st.Client)
			req := httptest.NewRequest("GET", "/_templ/reload/events", nil).WithContext(ctx)
			go func() {
				defer close(c.exited)
				h.ServeHTTP(c, req)
			}()
			select {
			case <-c.first:
			case <-time.After(10 * time.Second):
				return fmt.Sprintf("fail:step %d: client %d was not served within 10s", si, st.Client)
			}
		case "cancel":
			c := clients[st.Client]
			if c == nil || c.gone {
				continue
			}
			c.gone = true
			delete(expect, st.Client)
			c.cancel()
			if st.Wait && !c.stallSet {
				select {
				case <-c.exited:
				case <-time.After(10 * time.Second):
					return fmt.Sprintf("fail:step %d: handler of cancelled client %d did not return within 10s", si, st.Client)
				}
			}
		case "stall":
			c := clients[st.Client]
			if c == nil || c.gone || c.stallSet {
				continue
			}
			c.mu.Lock()
			c.stalled = stallAll
			c.mu.Unlock()
			c.stallSet = true
			delete(expect, st.Client)
		case "send", "burst":
			n := 1
			if st.Op == "burst" {
				n = max(2, st.N)
			}
			for k := 0; k < n; k++ {
				sendN++
				name := fmt.Sprintf("reload-%d", sendN)
				for i := range clients {
					if active(i) {
						expect[i] = append(expect[i], name)
					}
				}
				done := make(chan struct{})
				go func() { h.Send("message", name); close(done) }()
				select {
				case <-done:
				case <-time.After(2 * time.Second):
					return fmt.Sprintf("fail:step %d: Send blocked for more than 2s", si)
				}
			}
		case "cosend":
			// several broadcasters at once (the watcher's own reload next to POSTs to
			// /_templ/reload/events from --notify-proxy): st.N goroutines, each sending 8 events
			senders := max(2, st.N)
			var names [][]string
			for g := 0; g < senders; g++ {
				var mine []string
				for k := 0; k < 8; k++ {
					sendN++
					name := fmt.Sprintf("reload-%d", sendN)
					mine = append(mine, name)
					for i := range clients {
						if active(i) {
							expect[i] = append(expect[i], name)
						}
					}
				}
				names = append(names, mine)
			}
			start := make(chan struct{})
			var wg sync.WaitGroup
			for _, mine := range names {
				wg.Add(1)
				go func() {
					defer wg.Done()
					<-start
					for _, name := range mine {
						h.Send("message", name)
					}
				}()
			}
			close(start)
			done := make(chan struct{})
			go func() { wg.Wait(); close(done) }()
			select {
			case <-done:
			case <-time.After(5 * time.Second):
				return fmt.Sprintf("fail:step %d: concurrent Sends blocked for more than 5s", si)
			}
		case "storm":
			// browsers come and go (each reload drops and reopens the event stream) while reloads
			// are broadcast back to back: st.Client churning goroutines, st.N broadcasts
			stop := make(chan struct{})
			var cw sync.WaitGroup
			for g := 0; g < max(1, st.Client); g++ {
				cw.Add(1)
				go func() {
					defer cw.Done()
					for {
						select {
						case <-stop:
							return
						default:
						}
						ctx, cancel := context.WithCancel(context.Background())
						c := &client{first: make(chan struct{}), cancel: cancel, exited: make(chan struct{}), header: http.Header{}}
						req := httptest.NewRequest("GET", "/_templ/reload/events", nil).WithContext(ctx)
						go func() {
							defer close(c.exited)
							h.ServeHTTP(c, req)
						}()
						select {
						case <-c.first:
						case <-stop:
						case <-time.After(10 * time.Second):
						}
						cancel()
						select {
						case <-c.exited:
						case <-stop:
						case <-time.After(10 * time.Second):
						}
					}
				}()
			}
			for k := 0; k < max(2, st.N); k++ {
				sendN++
				name := fmt.Sprintf("reload-%d", sendN)
				for i := range clients {
					if active(i) {
						expect[i] = append(expect[i], name)
					}
				}
				done := make(chan struct{})
				go func() { h.Send("message", name); close(done) }()
				select {
				case <-done:
				case <-time.After(5 * time.Second):
					close(stop)
					return fmt.Sprintf("fail:step %d: with clients connecting and disconnecting, Send blocked for more than 5s (broadcast %d of the storm)", si, k)
				}
			}
			close(stop)
			churnDone := make(chan struct{})
			go func() { cw.Wait(); close(churnDone) }()
			select {
			case <-churnDone:
			case <-time.After(25 * time.Second):
				return fmt.Sprintf("fail:step %d: clients that connected during the broadcasts could not register or leave within 25s", si)
			}
		case "park":
			gateMu.Lock()
			if gate == nil {
				gate = make(chan struct{})
			}
			gateMu.Unlock()
		case "release":
			gateMu.Lock()
			if gate != nil {
				close(gate)
				gate = nil
			}
			gateMu.Unlock()
		case "pause":
			time.Sleep(time.Millisecond)
		}
	}
	gateMu.Lock()
	if gate != nil {
		close(gate)
		gate = nil
	}
	gateMu.Unlock()
	// every expected event must arrive
	deadline := time.Now().Add(10 * time.Second)
	for i, want := range expect {
		for {
			// Each broadcast is delivered by its own goroutine: the statement promises delivery, not
			// order, so events are compared as a multiset.
			got := clients[i].events()
			sort.Strings(got)
			w := append([]string(nil), want...)
			sort.Strings(w)
			if fmt.Sprint(got) == fmt.Sprint(w) {
				break
			}
			if len(got) > len(want) || time.Now().After(deadline) {
				return fmt.Sprintf("fail:client %d was connected for broadcasts %v but received %v", i, want, got)
			}
			time.Sleep(2 * time.Millisecond)
		}
	}
	// everybody leaves
	close(stallAll)
	for _, c := range clients {
		c.cancel()
	}
	for i, c := range clients {
		select {
		case <-c.exited:
		case <-time.After(10 * time.Second):
			return fmt.Sprintf("fail:handler of client %d did not return within 10s of disconnecting", i)
		}
	}
	// give late delivery goroutines the chance to hit a closed channel
	time.Sleep(20 * time.Millisecond)
	return "ok"
}

func TestChild(t *testing.T) {
	raw := os.Getenv("VERIF_C19_PLAN")
	if raw == "" {
		t.Skip("child mode only")
	}
	var p Plan
	if err := json.Unmarshal([]byte(raw), &p); err != nil {
		fmt.Println("RESULT:harness:" + err.Error())
		return
	}
	fmt.Println("RESULT:" + runPlan(p))
}

// ---------- the parent ----------

// childOut is where the child processes leave their (unused) recorder files: inside the scratch
// directory the driver removes after the run.
func childOut() string {
	d := os.Getenv("VERIF_SCRATCH")
	if d == "" {
		d = os.TempDir()
	}
	d = filepath.Join(d, "c19-children")
	_ = os.MkdirAll(d, 0o755)
	return d
}

func decide(p Plan) error {
	raw, _ := json.Marshal(p)
	for attempt := 0; ; attempt++ {
		ctx, cancel := context.WithTimeout(context.Background(), 90*time.Second)
		cmd := exec.CommandContext(ctx, os.Args[0], "-test.run=^TestChild$", "-test.count=1")
		cmd.Env = append(os.Environ(), "VERIF_C19_PLAN="+string(raw), "VERIF_OUT="+childOut(), "GORACE=halt_on_error=1 atexit_sleep_ms=0")
		out, err := cmd.CombinedOutput()
		timedOut := ctx.Err() != nil
		cancel()
		text := string(out)
		switch {
		case timedOut:
			if attempt == 0 {
				continue // a slow machine is not a deadlock: must repeat
			}
			return fmt.Errorf("the watch process model deadlocked (no result within 90s, twice)")
		case strings.Contains(text, "RESULT:ok") && err == nil:
			return nil
		case strings.Contains(text, "RESULT:harness:"):
			panic("harness: " + text)
		case strings.Contains(text, "RESULT:fail:"):
			i := strings.Index(text, "RESULT:fail:")
			return fmt.Errorf("%s", strings.SplitN(text[i+12:], "\n", 2)[0])
		case strings.Contains(text, "DATA RACE"):
			return fmt.Errorf("data race: %s", firstLines(text[strings.Index(text, "DATA RACE"):], 12))
		case strings.Contains(text, "panic:"):
			return fmt.Errorf("process crashed: %s", firstLines(text[strings.Index(text, "panic:"):], 6))
		default:
			return fmt.Errorf("child ended abnormally (%v): %s", err, firstLines(text, 10))
		}
	}
}

func firstLines(s string, n int) string {
	l := strings.Split(s, "\n")
	if len(l) > n {
		l = l[:n]
	}
	return strings.Join(l, " | ")
}

func init() {
	ev.RegisterReplay("c19.churn", func(raw json.RawMessage) error {
		var p Plan
		if err := json.Unmarshal(raw, &p); err != nil {
			return err
		}
		for i := 0; i < 5; i++ { // unforced parts of a plan are schedule dependent
			if err := decide(p); err != nil {
				return err
			}
		}
		return nil
	})
}

var genStep = rapid.Custom(func(t *rapid.T) Step {
	op := rapid.SampledFrom([]string{"sub", "sub", "sub", "cancel", "cancel", "stall", "send", "send", "send", "park", "release", "pause", "burst", "cosend", "storm"}).Draw(t, "op")
	st := Step{Op: op, Client: rapid.IntRange(0, 4).Draw(t, "client"), Wait: rapid.Bool().Draw(t, "wait")}
	if op == "burst" {
		st.N = rapid.SampledFrom([]int{3, 9, 12, 40, 120}).Draw(t, "burst")
	}
	if op == "cosend" {
		st.N = rapid.IntRange(2, 6).Draw(t, "senders")
	}
	if op == "storm" {
		st.N = rapid.SampledFrom([]int{200, 1000, 3000}).Draw(t, "stormSends")
		st.Client = rapid.IntRange(1, 8).Draw(t, "churners")
	}
	return st
})

// genHazard builds the forced schedule around generated noise: subscribe, park, send, cancel (wait
// for the handler to exit), release.
var genHazard = rapid.Custom(func(t *rapid.T) []Step {
	var s []Step
	n := rapid.IntRange(1, 4).Draw(t, "clients")
	for i := 0; i < n; i++ {
		s = append(s, Step{Op: "sub", Client: i})
	}
	s = append(s, rapid.SliceOfN(genStep, 0, 4).Draw(t, "before")...)
	s = append(s, Step{Op: "park"}, Step{Op: "send"})
	s = append(s, Step{Op: "cancel", Client: rapid.IntRange(0, n-1).Draw(t, "victim"), Wait: true})
	s = append(s, rapid.SliceOfN(genStep, 0, 3).Draw(t, "between")...)
	s = append(s, Step{Op: "release"})
	s = append(s, rapid.SliceOfN(genStep, 0, 4).Draw(t, "after")...)
	return s
})

func nontrivial(p Plan) bool {
	parked, sentParked := false, false
	stalled := map[int]bool{}
	live := map[int]bool{}
	for _, st := range p.Steps {
		switch st.Op {
		case "sub":
			live[st.Client] = true
		case "park":
			parked = true
		case "release":
			parked, sentParked = false, false
		case "stall":
			if live[st.Client] {
				stalled[st.Client] = true
			}
		case "cosend":
			if len(live) > 1 {
				return true
			}
		case "storm":
			return true
		case "send", "burst":
			if parked && len(live) > 0 {
				sentParked = true
			}
			for c := range stalled {
				if live[c] {
					return true
				}
			}
		case "cancel":
			if sentParked && live[st.Client] {
				return true
			}
			delete(live, st.Client)
		}
	}
	return false
}

func TestPropChurn(t *testing.T) {
	rapid.Check(t, func(t *rapid.T) {
		var p Plan
		if rapid.Bool().Draw(t, "hazard") {
			p.Steps = genHazard.Draw(t, "steps")
		} else {
			p.Steps = rapid.SliceOfN(genStep, 3, 25).Draw(t, "steps")
		}
		p.Procs = rapid.SampledFrom([]int{1, 2, 4, 16}).Draw(t, "procs")
		rec.Eval(1)
		for _, st := range p.Steps {
			rec.Class(st.Op)
		}
		if nontrivial(p) {
			rec.NonTrivial(fmt.Sprint(p), func() any { return p })
		}
		if err := decide(p); err != nil {
			rec.Fail(t, p, "%v", err)
		}
	})
}

func TestReplay(t *testing.T) {
	for _, r := range ev.RunReplays() {
		t.Logf("%+v", r)
	}
}
