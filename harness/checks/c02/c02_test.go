package c02

import (
	"encoding/json"
	"fmt"
	"os"
	"sort"
	"strings"
	"testing"
	"time"

	"pgregory.net/rapid"

	"verif/batch"
	"verif/ev"
	"verif/oneline"
	"verif/oracle/htmltok"
	"verif/tc"
	"verif/tgen"
)

func TestMain(m *testing.M) {
	code := m.Run()
	ev.FlushAll()
	os.Exit(code)
}

type Case struct {
	File *tgen.File `json:"file"`
	Args tgen.Args  `json:"args"`
}

// SrcCase is a template given as source text (the enumerated families).
type SrcCase struct {
	Source ev.QStr `json:"source"`
}

var recCompile = ev.New("C02", "c02.compiles",
	"generated templ programs (tgen grammar: elements inline/block/void/custom in single-line and multi-line layouts, attributes of every kind incl. conditional/boolean/class/href, text, string expressions incl. (string,error) calls and multi-line spellings, if/else-if/else, range and 3-clause for, tagged and tagless switch, calls with and without block incl. legacy syntax, children slots, raw Go, Go and HTML comments, doctype, style/script elements, css/script templates, Go blocks, header comments) "+
		"are put through templ generate's pipeline in-process: a template templ accepts must produce Go that gofmt and go/types accept. Non-trivial = the program has control flow or a component call and >=2 distinct node kinds; distinct by source text")

var recRender = ev.New("C02", "c02.renders",
	"the same programs, compiled in batches with the Go tool and rendered with generated argument tuples: the output tokenized by an HTML5 tokenizer must match the reference interpreter's denotation - tags, attributes (present exactly when their conditions hold, decoded values), comments, doctype and text atoms in order and exact, void elements unclosed, Go comments absent; whitespace between atoms only where the source has some (none invented) and present between adjacent inline content that the source separates (tier A siblings, tier B1 across control-flow joints); "+
		"tick() trace equal (expressions evaluated only where control flow reaches); render error iff an evaluated (string,error) call fails, wrapping its cause. Non-trivial as above; distinct by (source, arguments)")

func nontrivial(f *tgen.File) bool {
	kinds := map[string]bool{}
	ctl := false
	var walk func(ns []tgen.Node)
	walk = func(ns []tgen.Node) {
		for i := range ns {
			n := &ns[i]
			kinds[n.Kind] = true
			switch n.Kind {
			case "if", "for", "switch", "call":
				ctl = true
			}
			walk(n.Kids)
			walk(n.Else)
			for j := range n.ElseIfs {
				walk(n.ElseIfs[j].Kids)
			}
			for j := range n.Cases {
				walk(n.Cases[j].Kids)
			}
		}
	}
	for i := range f.Templates {
		walk(f.Templates[i].Body)
	}
	return ctl && len(kinds) >= 2
}

func canon(out []byte) (string, error) { return htmltok.Canon(out) }

// decideCompile: accepted => generated Go type-checks.
func decideCompile(f *tgen.File) (accepted bool, err error) {
	src, _ := tgen.Print(f, "P")
	return decideCompileSrc(src, map[string]string{"helpers.go": tgen.HelpersSource})
}

func decideCompileSrc(src string, extra map[string]string) (accepted bool, err error) {
	g, stage, gerr := tc.Generate(src, "p.templ")
	if gerr != nil {
		if strings.Contains(gerr.Error(), "panic") {
			return false, fmt.Errorf("templ generate panics (%s): %v\n%s", stage, gerr, src)
		}
		// A file whose generated code gofmt rejects makes `templ generate` fail for that file: the
		// template is not accepted, which the statement allows. Counted separately.
		return false, nil
	}
	files := map[string]string{"p_templ.go": g.Go}
	for k, v := range extra {
		files[k] = v
	}
	errs := tc.TypeCheck(files)
	if tc.ImportProblem(errs) {
		panic(fmt.Sprintf("harness: type checker cannot load dependencies: %v", errs))
	}
	if len(errs) > 0 {
		return true, fmt.Errorf("generated code does not compile: %v\n%s", errs[0], src)
	}
	return true, nil
}

// judge compares one render result with the denotation.
func judge(f *tgen.File, a tgen.Args, r result) error {
	d := tgen.Eval(f, a)
	if d.Err {
		if r.Err == "" {
			return fmt.Errorf("expression %s fails but Render returned nil", d.ErrExpr)
		}
		if !r.Boom {
			return fmt.Errorf("render error %q does not wrap the expression's error", r.Err)
		}
		// which expressions ran before the failure depends on evaluation order, which is not promised
		return nil
	}
	if r.Err != "" {
		return fmt.Errorf("render failed: %s", r.Err)
	}
	c, err := canon(r.Out)
	if err != nil {
		return err
	}
	if !d.Regexp().MatchString(c) {
		return fmt.Errorf("rendered document does not match the denotation:\n got  %q\n want %s", c, describe(d))
	}
	// The statement promises *whether* an expression is evaluated, not in which order (class and
	// script expressions are legitimately evaluated in front of their element): compare as multisets.
	if !sameMultiset(r.Trace, d.Trace) {
		return &traceError{got: r.Trace, want: d.Trace}
	}
	return nil
}

// traceError: the set of evaluated expressions differs from what control flow reaches.
type traceError struct{ got, want []string }

func (e *traceError) Error() string {
	return fmt.Sprintf("expressions evaluated %v, control flow reaches %v (an expression was evaluated where control flow does not reach, or skipped)", e.got, e.want)
}

func sameMultiset(a, b []string) bool {
	if len(a) != len(b) {
		return false
	}
	x, y := append([]string(nil), a...), append([]string(nil), b...)
	sort.Strings(x)
	sort.Strings(y)
	for i := range x {
		if x[i] != y[i] {
			return false
		}
	}
	return true
}

func describe(d tgen.Denotation) string {
	var sb strings.Builder
	for i, a := range d.Atoms {
		if i > 0 {
			sb.WriteString([]string{"", "~", "_"}[a.Gap])
		}
		fmt.Fprintf(&sb, "%q", a.Canon)
	}
	return sb.String() + "   (~ = whitespace allowed, _ = whitespace required)"
}

type result struct {
	Out           []byte   `json:"out"`
	Err           string   `json:"err"`
	Boom          bool     `json:"boom"`
	Trace         []string `json:"trace"`
	ErrFile       string   `json:"err_file"`
	ErrLine       int      `json:"err_line"`
	HasTemplError bool     `json:"has_templ_error"`
}

type job struct {
	K    int       `json:"k"`
	Args tgen.Args `json:"args"`
}

// runBatch compiles the files and runs the jobs.
func runBatch(files []*tgen.File, jobs []job) ([]result, error) {
	dir := batch.Dir()
	defer os.RemoveAll(dir)
	srcs := map[string]string{"helpers.go": tgen.HelpersSource, "runner.go": tgen.RunnerSource}
	var roots strings.Builder
	roots.WriteString("package main\n\nimport \"github.com/a-h/templ\"\n\nvar roots = []func(s1, s2 string, b1, b2 bool, n int, xs []string, fail bool, c templ.Component) templ.Component{\n")
	for i, f := range files {
		prefix := fmt.Sprintf("P%d", i)
		src, _ := tgen.Print(f, prefix)
		srcs[fmt.Sprintf("p%d.templ", i)] = src
		fmt.Fprintf(&roots, "\t%sT0,\n", prefix)
	}
	roots.WriteString("}\n")
	srcs["roots.go"] = roots.String()
	bin, err := batch.Build(dir, srcs, batch.Options{})
	if err != nil {
		return nil, err
	}
	var stdin strings.Builder
	enc := json.NewEncoder(&stdin)
	for _, j := range jobs {
		_ = enc.Encode(j)
	}
	out, stderr, err := batch.Run(bin, []byte(stdin.String()), nil, 120*time.Second)
	if err != nil {
		return nil, fmt.Errorf("run: %v: %s", err, stderr)
	}
	var res []result
	dec := json.NewDecoder(strings.NewReader(string(out)))
	for dec.More() {
		var r result
		if err := dec.Decode(&r); err != nil {
			return nil, err
		}
		res = append(res, r)
	}
	if len(res) != len(jobs) {
		return nil, fmt.Errorf("%d results for %d jobs: %s", len(res), len(jobs), stderr)
	}
	return res, nil
}

func decideRender(c Case) error {
	tgen.Normalize(c.File)
	res, err := runBatch([]*tgen.File{c.File}, []job{{0, c.Args}})
	if err != nil {
		if _, ok := err.(*batch.GenError); ok {
			return nil // not accepted: outside the property's domain
		}
		if be, ok := err.(*batch.BuildError); ok {
			src, _ := tgen.Print(c.File, "P0")
			return fmt.Errorf("generated code does not compile: %v\n%s", be, src)
		}
		panic("harness: " + err.Error())
	}
	if e := judge(c.File, c.Args, res[0]); e != nil {
		src, _ := tgen.Print(c.File, "P0")
		return fmt.Errorf("%v\nargs %+v\n%s", e, c.Args, src)
	}
	return nil
}

func init() {
	ev.RegisterReplay("c02.renders", func(raw json.RawMessage) error {
		var c Case
		if err := json.Unmarshal(raw, &c); err != nil {
			return err
		}
		return decideRender(c)
	})
	ev.RegisterReplay("c02.compiles", func(raw json.RawMessage) error {
		var sc SrcCase
		if err := json.Unmarshal(raw, &sc); err == nil && sc.Source != "" {
			_, err := decideCompileSrc(string(sc.Source), nil)
			return err
		}
		var c Case
		if err := json.Unmarshal(raw, &c); err != nil {
			return err
		}
		tgen.Normalize(c.File)
		_, err := decideCompile(c.File)
		return err
	})
}

func TestPropCompiles(t *testing.T) {
	g := tgen.GenFile(tgen.DefaultOptions)
	rapid.Check(t, func(t *rapid.T) {
		f := g.Draw(t, "file")
		recCompile.Eval(1)
		accepted, err := decideCompile(f)
		if accepted {
			recCompile.Class("accepted")
		} else {
			recCompile.Class("rejected-by-templ-generate")
		}
		if nontrivial(f) && accepted {
			src, _ := tgen.Print(f, "P")
			recCompile.NonTrivial(src, func() any { return src })
		}
		if err != nil {
			recCompile.Fail(t, Case{File: f}, "%v", err)
		}
	})
}

// TestPropDeep: every layout nested 0..24 levels deep in each kind of block must compile.
func TestPropDeep(t *testing.T) {
	shard, shards := ev.Shard()
	n := 0
	oneline.EachDeep(shard, shards, 24, func(name, src string) {
		n++
		recCompile.Eval(1)
		if _, err := decideCompileSrc(src, nil); err != nil {
			recCompile.Fail(t, SrcCase{Source: ev.QStr(src)}, "nested %s: %v", name, err)
		}
	})
	recCompile.ClassN("layouts nested 0..24 levels deep (enumerated completely)", n)
	recCompile.Enumerated(int64(n))
}

// TestPropLayouts: every member of the layout family (package oneline) that templ generate accepts
// must yield Go that type-checks.
func TestPropLayouts(t *testing.T) {
	shard, shards := ev.Shard()
	gaps := oneline.QuickGaps
	if ev.Thorough() {
		gaps = oneline.ThoroughGaps
	}
	n, acc := 0, 0
	oneline.EachLayoutX(shard, shards, gaps, func(l oneline.Layout, varied, src string) {
		if l.Parts || !oneline.SameTokens(l, varied) {
			return // two words written without a blank between them, or a layout that makes another program
		}
		n++
		recCompile.Eval(1)
		accepted, err := decideCompileSrc(src, nil)
		if accepted {
			acc++
		}
		if err != nil {
			recCompile.Fail(t, SrcCase{Source: ev.QStr(src)}, "layout %s: %v", l.Name, err)
		}
	})
	recCompile.ClassN("layout family (enumerated completely)", n)
	recCompile.Enumerated(int64(acc))
}

// KnownHoistedClass: see known_findings.json.
const KnownHoistedClass = "c02-hoisted-class-in-conditional-attribute"

func options() tgen.Options {
	o := tgen.DefaultOptions
	if ev.IsOpenFinding("C02", KnownHoistedClass) {
		o.NoTracedClassInCond = true
		o.Excluded = func() { recRender.Excluded(KnownHoistedClass) }
	}
	return o
}

func TestPropRenders(t *testing.T) {
	perBatch := ev.Pick(40, 60)
	tuples := ev.Pick(8, 16)
	g := tgen.GenFile(options())
	ga := tgen.GenArgs()
	rapid.Check(t, func(t *rapid.T) {
		var files []*tgen.File
		for len(files) < perBatch {
			f := g.Draw(t, "file")
			src, _ := tgen.Print(f, "P")
			if _, _, err := tc.Generate(src, "p.templ"); err != nil {
				recRender.Class("rejected-by-templ-generate")
				continue
			}
			files = append(files, f)
		}
		var jobs []job
		for k := range files {
			for j := 0; j < tuples; j++ {
				a := ga.Draw(t, "args")
				if j == 0 {
					// one tuple per program with a value around the size of templ's write buffer
					// (4096 bytes), where a single write is handled differently from small ones
					unit := rapid.SampledFrom([]string{"x", "lorem & ipsum ", "é<"}).Draw(t, "bigunit")
					size := rapid.SampledFrom([]int{4095, 4096, 4097, 5000, 9000, 20000}).Draw(t, "bigsize")
					big := strings.Repeat(unit, size/len(unit)+1)[:size]
					big = strings.ToValidUTF8(big, "")
					if rapid.Bool().Draw(t, "bigS2") {
						a.S2 = big
					} else {
						a.S1 = big
					}
					recRender.Class("argument of about one write buffer")
				}
				jobs = append(jobs, job{K: k, Args: a})
			}
		}
		res, err := runBatch(files, jobs)
		if err != nil {
			for _, f := range files {
				c := Case{File: f, Args: tgen.Args{}}
				if e := decideRender(c); e != nil {
					recRender.Fail(t, c, "%v", e)
				}
			}
			panic("harness: batch failed but no single program does: " + err.Error())
		}
		for i, j := range jobs {
			f := files[j.K]
			recRender.Eval(1)
			if nontrivial(f) {
				src, _ := tgen.Print(f, "P")
				recRender.NonTrivial(src+fmt.Sprint(j.Args), func() any { return map[string]any{"source": src, "args": j.Args, "output": string(res[i].Out)} })
			}
			if e := judge(f, j.Args, res[i]); e != nil {
				if k := knownClass(f, j.Args, e); k != "" && ev.IsOpenFinding("C02", k) {
					recRender.Excluded(k)
					continue
				}
				src, _ := tgen.Print(f, "P")
				recRender.Fail(t, Case{File: f, Args: j.Args}, "%v\nargs %+v\n%s", e, j.Args, src)
			}
		}
	})
}

// knownClass recognises the listed finding: the only disagreement is that expressions were
// evaluated which control flow does not reach, and every one of them sits in a class attribute
// inside a conditional attribute (the generator hoists those in front of the element). Nothing
// may have been skipped.
func knownClass(f *tgen.File, _ tgen.Args, err error) string {
	te, ok := err.(*traceError)
	if !ok {
		return ""
	}
	hoisted := tgen.TicksInConditionalClass(f)
	count := map[string]int{}
	for _, x := range te.got {
		count[x]++
	}
	for _, x := range te.want {
		count[x]--
	}
	extra := 0
	for id, n := range count {
		if n < 0 {
			return "" // something control flow reaches was not evaluated
		}
		if n > 0 {
			if !hoisted[id] {
				return ""
			}
			extra++
		}
	}
	if extra == 0 {
		return ""
	}
	return KnownHoistedClass
}

func TestReplay(t *testing.T) {
	for _, r := range ev.RunReplays() {
		t.Logf("%+v", r)
	}
}
