package c11

import (
	"context"
	"encoding/json"
	"errors"
	"fmt"
	"io"
	"net/http"
	"net/http/httptest"
	"os"
	"strings"
	"sync"
	"sync/atomic"
	"testing"

	"github.com/a-h/templ"
	"pgregory.net/rapid"

	"verif/ev"
	"verif/fx"
)

func TestMain(m *testing.M) {
	code := m.Run()
	ev.FlushAll()
	os.Exit(code)
}

// Req is one request against a freshly configured handler; a Case is a history of requests that
// share templ's byte-buffer pools.
type Req struct {
	Chunks    []string `json:"chunks"`     // document chunks (alphabet A-Z0-9<>/ only)
	FailAfter int      `json:"fail_after"` // -1: never; k: the component fails after writing k chunks
	Status    int      `json:"status"`     // 0 = unset
	CT        string   `json:"ct"`         // "" = default
	EH        string   `json:"eh"`         // none | header+body | body | nothing | status
	Stream    bool     `json:"stream"`
	Real      bool     `json:"real"` // through a real net/http server instead of a ResponseRecorder
	// ToGoHTML: instead of an HTTP request the component is rendered with templ.ToGoHTML, which
	// uses the same byte-buffer pool as the buffered handler.
	ToGoHTML bool `json:"to_go_html"`
	// CtxDone: the request's context is cancelled (as a timeout middleware does when its deadline
	// passes) at the point where the component fails - or, for a render that does not fail, before
	// its last chunk. The client stays connected.
	CtxDone bool `json:"ctx_done,omitempty"`
	// Method: "" = GET; HEAD and POST are requests like any other to the handler (through a real
	// server the client sees no body for HEAD).
	Method string `json:"method,omitempty"`
	// Wrap: the component is rendered inside a generated template that adds no markup of its own:
	// gen (@c), flush (@templ.Flush() { @c }), children (as the block of another template), once
	// (inside a once handle's block), deep (all of them nested), join (templ.Join), ignored-block (a
	// hand-written callee that is given a block and never renders it), slot-root (followed by a
	// children slot that gets no block). "" = directly.
	Wrap string `json:"wrap,omitempty"`
}

type cancelKeyT struct{}

// withCancel is the middleware that owns the request context and lets the component cancel it.
func withCancel(h http.Handler) http.Handler {
	return http.HandlerFunc(func(w http.ResponseWriter, r *http.Request) {
		ctx, cancel := context.WithCancel(r.Context())
		defer cancel()
		h.ServeHTTP(w, r.WithContext(context.WithValue(ctx, cancelKeyT{}, cancel)))
	})
}

type Case struct {
	Reqs []Req `json:"reqs"`
}

var rec = ev.New("C11", "c11.handler",
	"histories of 1..12 requests against templ.Handler (and renders through templ.ToGoHTML, which shares its buffer pool) with generated configuration (status unset/200/201/404/500, content type, error handler none / header+body / body only / nothing / status only, streaming on/off) and a component that writes k chunks "+
		"(0..64KiB, alphabet disjoint from every error text) then fails or not - handed to the handler directly or inside generated templates that add no markup (plain call, templ.Flush block, children block, once block, all nested, templ.Join, as a hand-written callee that ignores the block it is given, in front of a children slot that gets no block) -, for GET, HEAD and POST requests - in a quarter of the requests with the request's context cancelled at that moment, as a timeout middleware does -, via httptest.ResponseRecorder and via a real loopback net/http server; buffered oracle: success => configured status+content type+exact document; failure => exactly the default 500 message or exactly the error handler's response, no document byte, "+
		"never the configured success status. Non-trivial = failure after >=1 chunk, or a success following a failure in the same history; distinct by request configuration + position")

var errCause = errors.New("component failed deliberately")

const defaultMsg = "templ: failed to render template\n"

func component(r Req) templ.Component {
	return templ.ComponentFunc(func(ctx context.Context, w io.Writer) error {
		done := func() {
			if c, ok := ctx.Value(cancelKeyT{}).(context.CancelFunc); ok && r.CtxDone {
				c()
			}
		}
		for i, ch := range r.Chunks {
			if r.FailAfter == i {
				done()
				return errCause
			}
			if r.FailAfter < 0 && i == len(r.Chunks)-1 {
				done()
			}
			if _, err := io.WriteString(w, ch); err != nil {
				return err
			}
		}
		if r.FailAfter >= len(r.Chunks) {
			done()
			return errCause
		}
		return nil
	})
}

const ehBody = "handled-error-body"

func wrapped(r Req) templ.Component {
	c := component(r)
	switch r.Wrap {
	case "gen":
		return fx.WrapGen(c)
	case "flush":
		return fx.WrapFlush(c)
	case "children":
		return fx.WrapChildren(c)
	case "once":
		return fx.WrapOnce(c)
	case "deep":
		return fx.WrapDeep(c)
	case "join":
		return templ.Join(c)
	case "ignored-block":
		return fx.WrapIgnoredBlock(c)
	case "slot-root":
		return fx.WrapSlotRoot(c)
	}
	return c
}

func handler(r Req, sawErr *error) http.Handler {
	return handlerFor(r, wrapped(r), sawErr)
}

func handlerFor(r Req, comp templ.Component, sawErr *error) http.Handler {
	opts := []func(*templ.ComponentHandler){}
	if r.Status != 0 {
		opts = append(opts, templ.WithStatus(r.Status))
	}
	if r.CT != "" {
		opts = append(opts, templ.WithContentType(r.CT))
	}
	if r.Stream {
		opts = append(opts, templ.WithStreaming())
	}
	if r.EH != "none" {
		opts = append(opts, templ.WithErrorHandler(func(_ *http.Request, err error) http.Handler {
			*sawErr = err
			return http.HandlerFunc(func(w http.ResponseWriter, _ *http.Request) {
				switch r.EH {
				case "header+body":
					w.Header().Set("Content-Type", "text/x-error")
					w.WriteHeader(http.StatusBadGateway)
					_, _ = io.WriteString(w, ehBody)
				case "body":
					_, _ = io.WriteString(w, ehBody)
				case "status":
					w.WriteHeader(http.StatusTeapot)
				case "nothing":
				}
			})
		}))
	}
	return withCancel(templ.Handler(comp, opts...))
}

func doc(r Req) string { return strings.Join(r.Chunks, "") }

func methodOf(r Req) string {
	if r.Method == "" {
		return "GET"
	}
	return r.Method
}

func fails(r Req) bool { return r.FailAfter >= 0 }

type resp struct {
	code int
	ct   string
	body string
}

func do(r Req, sawErr *error) (out resp, err error) {
	defer func() {
		if x := recover(); x != nil {
			if msg := fmt.Sprint(x); strings.HasPrefix(msg, "harness:") || strings.HasPrefix(msg, "httptest:") {
				panic(x) // trouble of the harness's own plumbing: exit 2, never a verdict
			}
			err = fmt.Errorf("panic: %v", x)
		}
	}()
	if r.ToGoHTML {
		html, err := templ.ToGoHTML(context.Background(), wrapped(r))
		if err != nil {
			*sawErr = err
			return resp{code: 500, body: defaultMsg}, nil
		}
		code := r.Status
		if code == 0 {
			code = 200
		}
		ct := r.CT
		if ct == "" {
			ct = "text/html; charset=utf-8"
		}
		return resp{code: code, ct: ct, body: string(html)}, nil
	}
	h := handler(r, sawErr)
	if r.Real {
		// one loopback server per process, with keep-alive connections: a server per request runs
		// out of ephemeral ports in long runs
		id := fmt.Sprint(realSeq.Add(1))
		realHandlers.Store(id, h)
		defer realHandlers.Delete(id)
		hreq, herr := http.NewRequest(methodOf(r), realServer().URL+"/"+id, nil)
		if herr != nil {
			panic("harness: " + herr.Error())
		}
		res, err := http.DefaultClient.Do(hreq)
		if err != nil {
			panic("harness: " + methodOf(r) + ": " + err.Error())
		}
		defer res.Body.Close()
		b, err := io.ReadAll(res.Body)
		if err != nil {
			panic("harness: read: " + err.Error())
		}
		return resp{res.StatusCode, res.Header.Get("Content-Type"), string(b)}, nil
	}
	w := httptest.NewRecorder()
	h.ServeHTTP(w, httptest.NewRequest(methodOf(r), "/", nil))
	return resp{w.Code, w.Header().Get("Content-Type"), w.Body.String()}, nil
}

var (
	realOnce     sync.Once
	realSrv      *httptest.Server
	realHandlers sync.Map
	realSeq      atomic.Int64
)

func realServer() *httptest.Server {
	realOnce.Do(func() {
		realSrv = httptest.NewServer(http.HandlerFunc(func(w http.ResponseWriter, r *http.Request) {
			h, ok := realHandlers.Load(strings.TrimPrefix(r.URL.Path, "/"))
			if !ok {
				http.Error(w, "harness: no handler registered", http.StatusGone)
				return
			}
			h.(http.Handler).ServeHTTP(w, r)
		}))
	})
	return realSrv
}

func decide(c Case) error {
	for i, r := range c.Reqs {
		var sawErr error
		got, err := do(r, &sawErr)
		if err != nil {
			return fmt.Errorf("request %d: %v", i, err)
		}
		if err := judge(i, r, got, sawErr); err != nil {
			return err
		}
	}
	return nil
}

// judge decides one response.
func judge(i int, r Req, got resp, sawErr error) error {
	if r.Real && r.Method == "HEAD" {
		// the client of a real server sees status and headers only: they must be those of the
		// corresponding GET
		if got.body != "" {
			return fmt.Errorf("request %d (HEAD over a real connection): the client received a body %q", i, clip(got.body))
		}
		if r.Stream && fails(r) {
			return nil // streaming: partial output and a late status are the documented contrast
		}
		want := 200
		switch {
		case !fails(r):
			if r.Status != 0 {
				want = r.Status
			}
		case r.EH == "none":
			want = 500
		case r.EH == "header+body":
			want = http.StatusBadGateway
		case r.EH == "status":
			want = http.StatusTeapot
		}
		if got.code != want {
			return fmt.Errorf("request %d (HEAD, %s): status %d, a GET gets %d", i, map[bool]string{true: "render fails", false: "render succeeds"}[fails(r)], got.code, want)
		}
		return nil
	}
	for once := true; once; once = false {
		ct := r.CT
		if ct == "" {
			ct = "text/html; charset=utf-8"
		}
		d := doc(r)
		if r.Stream {
			// documented contrast: partial output allowed; only sanity
			if !fails(r) && got.body != d {
				return fmt.Errorf("request %d (streaming, no failure): body %q, want %q", i, clip(got.body), clip(d))
			}
			return nil
		}
		if !fails(r) {
			want := r.Status
			if want == 0 {
				want = 200
			}
			if got.code != want || got.ct != ct || got.body != d {
				return fmt.Errorf("request %d (success): status %d content-type %q body %q; want %d %q %q", i, got.code, got.ct, clip(got.body), want, ct, clip(d))
			}
			return nil
		}
		// buffered failure
		if strings.ContainsAny(got.body, "ABCDEFGHIJKLMNOPQRSTUVWXYZ0123456789<>/") {
			return fmt.Errorf("request %d (failure after %d chunks): response body %q contains document bytes", i, r.FailAfter, clip(got.body))
		}
		switch r.EH {
		case "none":
			if got.code != 500 || got.body != defaultMsg {
				return fmt.Errorf("request %d (failure, no error handler): status %d body %q; want 500 %q", i, got.code, clip(got.body), defaultMsg)
			}
		case "header+body":
			if got.code != http.StatusBadGateway || got.body != ehBody || got.ct != "text/x-error" {
				return fmt.Errorf("request %d (failure, error handler sets header+body): status %d ct %q body %q", i, got.code, got.ct, clip(got.body))
			}
		case "body":
			if got.code != 200 || got.body != ehBody {
				return fmt.Errorf("request %d (failure, error handler writes body only): status %d body %q; the handler must not have sent its own status %d", i, got.code, clip(got.body), r.Status)
			}
		case "status":
			if got.code != http.StatusTeapot || got.body != "" {
				return fmt.Errorf("request %d (failure, error handler sets status only): status %d body %q", i, got.code, clip(got.body))
			}
		case "nothing":
			if got.code != 200 || got.body != "" {
				return fmt.Errorf("request %d (failure, error handler writes nothing): status %d body %q", i, got.code, clip(got.body))
			}
		}
		if r.EH != "none" && !errors.Is(sawErr, errCause) {
			return fmt.Errorf("request %d: error handler received %v, which does not wrap the component's error", i, sawErr)
		}
	}
	return nil
}

func clip(s string) string {
	if len(s) > 80 {
		return s[:60] + fmt.Sprintf("...(%d bytes)", len(s))
	}
	return s
}

func init() {
	ev.RegisterReplay("c11.handler", func(raw json.RawMessage) error {
		var c Case
		if err := json.Unmarshal(raw, &c); err != nil {
			return err
		}
		return decide(c)
	})
}

var genChunk = rapid.Custom(func(t *rapid.T) string {
	unit := rapid.SampledFrom([]string{"A", "<DIV>", "XYZ0", "</P>", "9", "HELLO/"}).Draw(t, "unit")
	n := rapid.SampledFrom([]int{0, 1, 1, 2, 3, 7, 64, 500, 1024, 4095, 4096, 4097, 9000, 20000}).Draw(t, "rep")
	return strings.Repeat(unit, n)[:min(n*len(unit), 65536)]
})

var genReq = rapid.Custom(func(t *rapid.T) Req {
	r := Req{
		Chunks: rapid.SliceOfN(genChunk, 0, 6).Draw(t, "chunks"),
		Status: rapid.SampledFrom([]int{0, 0, 200, 201, 404, 500}).Draw(t, "status"),
		CT:     rapid.SampledFrom([]string{"", "", "text/plain", "application/xhtml+xml; charset=utf-8",
			// types for which a server might be tempted to choose its own delivery mode
			"text/event-stream", "Text/Event-Stream; charset=utf-8", "application/json", "application/octet-stream", "multipart/x-mixed-replace; boundary=b", "text/html; charset=utf-8", "image/svg+xml", "x"}).Draw(t, "ct"),
		EH:     rapid.SampledFrom([]string{"none", "none", "header+body", "body", "nothing", "status"}).Draw(t, "eh"),
		Stream: rapid.IntRange(0, 5).Draw(t, "stream") == 0,
		Real:   rapid.IntRange(0, 7).Draw(t, "real") == 0,
	}
	if rapid.IntRange(0, 5).Draw(t, "togohtml") == 0 {
		// modelled as a request without error handler and streaming: success = the document, failure = an error
		r.ToGoHTML, r.EH, r.Stream, r.Real = true, "none", false, false
	}
	r.FailAfter = -1
	if rapid.Bool().Draw(t, "fails") {
		r.FailAfter = rapid.IntRange(0, len(r.Chunks)).Draw(t, "failAfter")
	}
	r.CtxDone = !r.ToGoHTML && rapid.IntRange(0, 3).Draw(t, "ctxDone") == 0
	if !r.ToGoHTML {
		r.Method = rapid.SampledFrom([]string{"", "", "", "HEAD", "HEAD", "POST"}).Draw(t, "method")
		r.Wrap = rapid.SampledFrom([]string{"", "", "gen", "flush", "flush", "children", "once", "deep", "join", "ignored-block", "ignored-block", "slot-root", "slot-root"}).Draw(t, "wrap")
	}
	return r
})

func TestPropHandler(t *testing.T) {
	rapid.Check(t, func(t *rapid.T) {
		c := Case{Reqs: rapid.SliceOfN(genReq, 1, 12).Draw(t, "reqs")}
		failedBefore := false
		for i, r := range c.Reqs {
			rec.Eval(1)
			written := 0
			if fails(r) {
				for _, ch := range r.Chunks[:min(r.FailAfter, len(r.Chunks))] {
					written += len(ch)
				}
			}
			kind := "buffered"
			if r.Stream {
				kind = "streaming"
			}
			if r.CtxDone {
				rec.Class("request context cancelled during the render")
			}
			if fails(r) {
				rec.Class(kind + "-failure-eh-" + r.EH)
			} else {
				rec.Class(kind + "-success")
			}
			if !r.Stream && ((fails(r) && written > 0) || (!fails(r) && failedBefore)) {
				key := fmt.Sprintf("%d|%d|%d|%s|%s|%v|%d|%v|%v", i, len(doc(r)), r.FailAfter, r.CT, r.EH, r.Real, r.Status, failedBefore, written)
				rr := r
				rec.NonTrivial(key, func() any {
					s := rr
					s.Chunks = append([]string(nil), rr.Chunks...)
					for j := range s.Chunks {
						s.Chunks[j] = clip(s.Chunks[j])
					}
					return s
				})
			}
			if fails(r) {
				failedBefore = true
			}
		}
		if err := decide(c); err != nil {
			rec.Fail(t, c, "%v", err)
		}
	})
}

func TestReplay(t *testing.T) {
	for _, r := range ev.RunReplays() {
		t.Logf("%+v", r)
	}
}
