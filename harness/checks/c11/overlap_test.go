package c11

import (
	"context"
	"encoding/json"
	"fmt"
	"io"
	"net/http/httptest"
	"runtime"
	"testing"
	"time"

	"github.com/a-h/templ"
	"pgregory.net/rapid"

	"verif/ev"
)

// OverlapCase: a sequential prefix (to put the buffer pool into some state), then requests that
// overlap in time. The harness owns the interleaving: Order lists which request may take its next
// step (write its next chunk, fail, or finish); every other request is parked inside its
// component.
type OverlapCase struct {
	Prefix []Req `json:"prefix"`
	Reqs   []Req `json:"reqs"`
	Order  []int `json:"order"`
	Procs  int   `json:"procs"`
}

var recOv = ev.New("C11", "c11.overlap",
	"a sequential prefix of 0..4 requests (some failing) followed by 2..4 buffered requests that overlap in time with a harness-owned interleaving: a generated global order says which request's component takes its next step (write next chunk / fail / finish) while the others are parked mid-render; GOMAXPROCS 1, 2 or 4. "+
		"Oracle per request as in c11.handler (exact document with configured status, or exact error response, never a mixture or another request's bytes). Non-trivial = the prefix holds a failure and at least one overlapping request fails while another is parked mid-render with >=1 chunk written; distinct by case")

type stepper struct {
	turn chan struct{}
	done chan struct{} // a step (or the whole request) finished
}

func (c OverlapCase) run() error {
	if c.Procs > 0 {
		defer runtime.GOMAXPROCS(runtime.GOMAXPROCS(c.Procs))
	}
	if err := decide(Case{Reqs: c.Prefix}); err != nil {
		return fmt.Errorf("prefix: %v", err)
	}
	n := len(c.Reqs)
	steppers := make([]*stepper, n)
	finished := make([]chan struct{}, n)
	results := make([]resp, n)
	sawErrs := make([]error, n)
	panics := make([]any, n)
	for i := range c.Reqs {
		steppers[i] = &stepper{turn: make(chan struct{}), done: make(chan struct{})}
		finished[i] = make(chan struct{})
	}
	for i, r := range c.Reqs {
		i, r := i, r
		st := steppers[i]
		comp := templ.ComponentFunc(func(ctx context.Context, w io.Writer) error {
			for k, ch := range r.Chunks {
				<-st.turn
				if r.FailAfter == k {
					st.done <- struct{}{}
					return errCause
				}
				_, err := io.WriteString(w, ch)
				st.done <- struct{}{}
				if err != nil {
					return err
				}
			}
			<-st.turn
			st.done <- struct{}{}
			if r.FailAfter >= len(r.Chunks) {
				return errCause
			}
			return nil
		})
		go func() {
			defer close(finished[i])
			defer func() {
				if x := recover(); x != nil {
					panics[i] = x
				}
			}()
			h := handlerFor(r, comp, &sawErrs[i])
			w := httptest.NewRecorder()
			h.ServeHTTP(w, httptest.NewRequest("GET", "/", nil))
			results[i] = resp{w.Code, w.Header().Get("Content-Type"), w.Body.String()}
		}()
	}
	// number of steps each request takes: one per chunk until failure, plus the final one
	steps := make([]int, n)
	for i, r := range c.Reqs {
		steps[i] = len(r.Chunks) + 1
		if r.FailAfter >= 0 && r.FailAfter < len(r.Chunks) {
			steps[i] = r.FailAfter + 1
		}
	}
	take := func(i int) error {
		if steps[i] == 0 {
			return nil
		}
		steps[i]--
		select {
		case steppers[i].turn <- struct{}{}:
		case <-finished[i]:
			return nil
		case <-time.After(20 * time.Second):
			return fmt.Errorf("request %d does not reach its next step", i)
		}
		select {
		case <-steppers[i].done:
		case <-time.After(20 * time.Second):
			return fmt.Errorf("request %d stuck inside a step", i)
		}
		if steps[i] == 0 {
			// let the handler finish writing the response before anyone else moves
			select {
			case <-finished[i]:
			case <-time.After(20 * time.Second):
				return fmt.Errorf("request %d: handler did not return", i)
			}
		}
		return nil
	}
	for _, i := range c.Order {
		if err := take(i % n); err != nil {
			return err
		}
	}
	for i := 0; i < n; i++ {
		for steps[i] > 0 {
			if err := take(i); err != nil {
				return err
			}
		}
		<-finished[i]
	}
	for i, r := range c.Reqs {
		if panics[i] != nil {
			return fmt.Errorf("overlapping request %d: panic: %v", i, panics[i])
		}
		if err := judge(i, r, results[i], sawErrs[i]); err != nil {
			return fmt.Errorf("overlapping %v", err)
		}
	}
	return nil
}

func init() {
	ev.RegisterReplay("c11.overlap", func(raw json.RawMessage) error {
		var c OverlapCase
		if err := json.Unmarshal(raw, &c); err != nil {
			return err
		}
		for i := 0; i < 20; i++ {
			if err := c.run(); err != nil {
				return err
			}
		}
		return nil
	})
}

func TestPropOverlap(t *testing.T) {
	rapid.Check(t, func(t *rapid.T) {
		c := OverlapCase{
			Prefix: rapid.SliceOfN(genReq, 0, 4).Draw(t, "prefix"),
			Reqs:   rapid.SliceOfN(genReq, 2, 4).Draw(t, "reqs"),
			Order:  rapid.SliceOfN(rapid.IntRange(0, 3), 0, 24).Draw(t, "order"),
			Procs:  rapid.SampledFrom([]int{1, 1, 2, 4}).Draw(t, "procs"),
		}
		for i := range c.Prefix {
			c.Prefix[i].Real = false
		}
		for i := range c.Reqs {
			c.Reqs[i].Real = false
			c.Reqs[i].Stream = false
		}
		recOv.Eval(1)
		prefixFail, ovFail, big := false, false, false
		for _, r := range c.Prefix {
			prefixFail = prefixFail || (fails(r) && !r.Stream)
		}
		for _, r := range c.Reqs {
			ovFail = ovFail || fails(r)
			big = big || len(doc(r)) > 0
		}
		if prefixFail && ovFail && big && len(c.Order) >= 3 {
			recOv.NonTrivial(fmt.Sprint(c), func() any {
				s := c
				s.Prefix, s.Reqs = clipReqs(c.Prefix), clipReqs(c.Reqs)
				return s
			})
		}
		if err := c.run(); err != nil {
			recOv.Fail(t, c, "%v", err)
		}
	})
}

func clipReqs(in []Req) []Req {
	out := make([]Req, len(in))
	for i, r := range in {
		out[i] = r
		out[i].Chunks = append([]string(nil), r.Chunks...)
		for j := range out[i].Chunks {
			out[i].Chunks[j] = clip(out[i].Chunks[j])
		}
	}
	return out
}
