package c12

import (
	"bytes"
	"context"
	"encoding/json"
	"fmt"
	"io"
	"net/http"
	"net/http/httptest"
	"os"
	"regexp"
	"strings"
	"testing"

	"github.com/a-h/templ"
	"pgregory.net/rapid"

	"verif/ev"
	"verif/fx"
	"verif/oracle/csstok"
	"verif/oracle/htmltok"
	"verif/oracle/jseval"
)

func TestMain(m *testing.M) {
	code := m.Run()
	ev.FlushAll()
	os.Exit(code)
}

// Case: histories rendered into contexts. Each history names the context it renders into;
// histories with the same Ctx share rendering state. Registered lists css components (A, N) that
// the CSS middleware pre-registers (then everything is rendered through the middleware).
type Case struct {
	Histories  []History `json:"histories"`
	Registered []CSSRef  `json:"registered,omitempty"`
	// LaterFrom: the registered classes from this index on are added to the middleware's exported
	// Classes list after the middleware was made (0 = all of them at construction).
	LaterFrom int `json:"later_from,omitempty"`
	PreInit    bool      `json:"pre_init"` // contexts are created with templ.InitializeContext before rendering
	// Nested: every Write that reaches the writer of context 0 (a slow client, a writer that
	// renders something itself) first lets the next history of another context render. The
	// contexts stay independent; only the moments at which they render interleave.
	Nested bool `json:"nested,omitempty"`
	// Bare: renders whose top-level component is not a generated template (a script template
	// value, a once handle, a templ.Join of them, a hand-written ComponentFunc that calls the
	// runtime's RenderCSSItems / RenderScriptItems), each handed a plain context nobody has
	// initialised. Every one of them is a rendering context of its own.
	Bare []Bare `json:"bare,omitempty"`
}

type Bare struct {
	Kind string `json:"kind"` // script | join | css-func | script-items | once-fixed | once-block
	A    int    `json:"a"`
	B    int    `json:"b"`
	N    int    `json:"n"`
	S    string `json:"s"`
	Via  string `json:"via"` // render | handler | gohtml
}

func (b Bare) build() (templ.Component, []event) {
	switch b.Kind {
	case "script":
		return fx.EScript(b.A, b.N, b.S), []event{{Kind: "call", Cap: capOf(b.A, b.N, b.S)}}
	case "join":
		bb := b.B
		if bb%3 == b.A%3 {
			bb++
		}
		return templ.Join(fx.EScript(b.A, b.N, b.S), fx.EScript(bb, b.N, b.S)),
			[]event{{Kind: "call", Cap: capOf(b.A, b.N, b.S)}, {Kind: "call", Cap: capOf(bb, b.N, b.S)}}
	case "css-func":
		cl := fx.ECSS(b.A, b.N)
		return templ.ComponentFunc(func(ctx context.Context, w io.Writer) error {
				if err := templ.RenderCSSItems(ctx, w, cl); err != nil {
					return err
				}
				_, err := io.WriteString(w, `<div class="`+templ.EscapeString(cl.ClassName())+`"></div>`)
				return err
			}),
			[]event{{Kind: "elem", Tag: "div", HasClass: true, Classes: cl.ClassName()}}
	case "script-items":
		sc := fx.EScript(b.A, b.N, b.S)
		return templ.ComponentFunc(func(ctx context.Context, w io.Writer) error {
				if err := templ.RenderScriptItems(ctx, w, sc); err != nil {
					return err
				}
				_, err := io.WriteString(w, `<button onclick="`+sc.Call+`"></button>`)
				return err
			}),
			[]event{{Kind: "elem", Tag: "button", Handlers: [][]any{capOf(b.A, b.N, b.S)}}}
	case "once-block":
		id := fmt.Sprintf("ob%d", b.A)
		inner := templ.ComponentFunc(func(ctx context.Context, w io.Writer) error {
			_, err := io.WriteString(w, `<script id="`+id+`" type="text/plain">once</script>`)
			return err
		})
		h := fx.EHandle(b.A)
		return templ.ComponentFunc(func(ctx context.Context, w io.Writer) error {
			return h.Once().Render(templ.WithChildren(ctx, inner), w)
		}), []event{{Kind: "once", ID: id}}
	default: // once-fixed
		return fx.EFixed(), []event{{Kind: "fixed"}}
	}
}

func (b Bare) render() (out []byte, err error) {
	defer func() {
		if x := recover(); x != nil {
			err = fmt.Errorf("panic: %v", x)
		}
	}()
	comp, _ := b.build()
	switch b.Via {
	case "handler":
		rr := httptest.NewRecorder()
		templ.Handler(comp).ServeHTTP(rr, httptest.NewRequest("GET", "/", nil))
		if rr.Code != 200 {
			return nil, fmt.Errorf("status %d: %s", rr.Code, clip(rr.Body.String()))
		}
		return rr.Body.Bytes(), nil
	case "gohtml":
		h, err := templ.ToGoHTML(context.Background(), comp)
		return []byte(h), err
	default:
		var buf bytes.Buffer
		err := comp.Render(context.Background(), &buf)
		return buf.Bytes(), err
	}
}

func decideBare(c Case) error {
	for i, b := range c.Bare {
		out, err := b.render()
		if err != nil {
			return fmt.Errorf("bare render %d (%+v): %v", i, b, err)
		}
		_, evs := b.build()
		if err := judge(out, evs, nil); err != nil {
			return fmt.Errorf("render %d of %d, each with a fresh plain context (%+v): %v; output %q", i+1, len(c.Bare), b, err, clip(string(out)))
		}
	}
	return nil
}

type hookWriter struct {
	buf  *bytes.Buffer
	hook func()
	busy bool
}

func (h *hookWriter) Write(p []byte) (int, error) {
	if h.hook != nil && !h.busy {
		h.busy = true
		h.hook()
		h.busy = false
	}
	return h.buf.Write(p)
}

type History struct {
	Ctx  int       `json:"ctx"`
	Uses []fx.EUse `json:"uses"`
	// Nonce: before this history is rendered the context is given a CSP nonce with templ.WithNonce
	// (a nonce middleware inside the CSS middleware, or a nonce chosen after part of the page).
	Nonce string `json:"nonce,omitempty"`
}

type CSSRef struct {
	A int `json:"a"`
	N int `json:"n"`
}

var rec = ev.New("C12", "c12.histories",
	"histories (<=40 uses, nested in wrapper components, child blocks and once blocks) over 3 script templates (+JSFuncCall), 3 css components (one parameterised) and 3 once handles (block and fixed-component form): render script component, on* attributes with one or two scripts, on* attributes inside conditional attributes one and two levels deep (then and else branches), class expressions holding css components in every container form "+
		"(direct, templ.KV(c,bool), templ.Classes, []templ.CSSClass, templ.CSSClasses with nested KV, func() CSSClass, mixed with strings), once renders; one or several contexts (fresh, shared by consecutive histories, pre-initialised), with/without templ.NewCSSMiddleware pre-registering a subset. "+
		"Oracle over the HTML5 token stream per context: each script function / css rule / once body is defined at most once and before its first use; the sequence of uses (elements with their class names and handlers, call elements, once contents) equals the reference model's; V8 evaluates all scripts then all handlers: right functions, right arguments; registered classes are never inlined and are served by the stylesheet endpoint; rendering a history alone in a fresh context gives the same bytes. "+
		"Non-trivial = some script/class/handle is used >=2 times through >=2 different use kinds in one context; distinct by case")

var engine = jseval.New()

// ---------- reference model ----------

type event struct {
	Kind     string // elem | call | once | fixed | section-start | section-end
	Tag      string
	Classes  string // expected class attribute ("" none)
	HasClass bool
	Handlers [][]any // expected cap() argument lists, one per handler attribute
	Cap      []any   // for call elements
	ID       string  // once marker id
}

type model struct {
	once  map[int]bool
	fixed bool
	evs   []event
}

func capOf(a, n int, s string) []any {
	switch a % 3 {
	case 0:
		return []any{"s0", s}
	case 1:
		return []any{"s1"}
	default:
		return []any{"s2", n, s}
	}
}

type cls struct {
	name    string
	enabled bool
}

// className semantics of a class expression: ordered, unique, the last enable flag of a name wins.
func classAttr(items []cls) string {
	enabled := map[string]bool{}
	var order []string
	for _, it := range items {
		enabled[it.name] = it.enabled
		order = append(order, it.name)
	}
	seen := map[string]bool{}
	var out []string
	for _, n := range order {
		if enabled[n] && !seen[n] {
			seen[n] = true
			out = append(out, n)
		}
	}
	return strings.Join(out, " ")
}

func cname(a, n int) string { return fx.ECSS(a, n).ClassName() }

func (m *model) walk(us []fx.EUse) {
	for _, u := range us {
		switch u.Kind {
		case "script-call":
			m.evs = append(m.evs, event{Kind: "call", Cap: capOf(u.A, u.N, u.S)})
		case "on-attr":
			m.evs = append(m.evs, event{Kind: "elem", Tag: "button", Handlers: [][]any{capOf(u.A, u.N, u.S)}})
		case "on-attr-void":
			m.evs = append(m.evs, event{Kind: "elem", Tag: "input", Handlers: [][]any{capOf(u.A, u.N, u.S)}})
		case "on-attr2":
			m.evs = append(m.evs, event{Kind: "elem", Tag: "button", Handlers: [][]any{capOf(u.A, u.N, u.S), capOf(u.B, u.N, u.S)}})
		case "on-attr-cond":
			h := capOf(u.A, u.N, u.S)
			if !u.On {
				h = capOf(u.B, u.N, u.S)
			}
			m.evs = append(m.evs, event{Kind: "elem", Tag: "button", Handlers: [][]any{h}})
		case "on-attr-cond2":
			var hs [][]any
			switch {
			case u.N != 50 && u.On:
				hs = [][]any{capOf(u.A, u.N, u.S)}
			case u.N != 50, u.On:
				hs = [][]any{capOf(u.B, u.N, u.S)}
			}
			m.evs = append(m.evs, event{Kind: "elem", Tag: "button", Handlers: hs})
		case "class-direct", "class-func":
			m.evs = append(m.evs, event{Kind: "elem", Tag: "div", HasClass: true, Classes: classAttr([]cls{{cname(u.A, u.N), true}})})
		case "class-kv":
			m.evs = append(m.evs, event{Kind: "elem", Tag: "div", HasClass: true, Classes: classAttr([]cls{{cname(u.A, u.N), u.On}, {"k", true}})})
		case "class-classes":
			m.evs = append(m.evs, event{Kind: "elem", Tag: "div", HasClass: true, Classes: classAttr([]cls{{cname(u.A, u.N), true}, {"plain", true}})})
		case "class-slice":
			m.evs = append(m.evs, event{Kind: "elem", Tag: "div", HasClass: true, Classes: classAttr([]cls{{cname(u.A, u.N), true}, {cname(u.B, u.N), true}})})
		case "class-cssclasses":
			m.evs = append(m.evs, event{Kind: "elem", Tag: "div", HasClass: true, Classes: classAttr([]cls{{"x", true}, {cname(u.A, u.N), true}, {cname(u.B, u.N), u.On}})})
		case "class-mixed":
			m.evs = append(m.evs, event{Kind: "elem", Tag: "div", HasClass: true, Classes: classAttr([]cls{{"x", true}, {cname(u.A, u.N), true}, {"y", true}, {cname(u.B, u.N), true}})})
		case "once-block":
			k := u.A % 4
			if !m.once[k] {
				m.once[k] = true
				m.evs = append(m.evs, event{Kind: "once", ID: fmt.Sprintf("ob%d", u.A)})
				m.walk(u.Kids)
			}
		case "once-fixed":
			if !m.fixed {
				m.fixed = true
				m.evs = append(m.evs, event{Kind: "fixed"})
			}
		case "wrap":
			m.evs = append(m.evs, event{Kind: "section-start"})
			m.walk(u.Kids)
			m.evs = append(m.evs, event{Kind: "section-end"})
		case "jsfunc-call":
			m.evs = append(m.evs, event{Kind: "call", Cap: []any{"f", u.S}})
		case "jsfunc-attr":
			m.evs = append(m.evs, event{Kind: "elem", Tag: "a", Handlers: [][]any{{"f", u.S}}})
		}
	}
}

// ---------- observation ----------

var (
	funcDef  = regexp.MustCompile(`function (__templ_es\d_[0-9a-f]+)\(`)
	funcCall = regexp.MustCompile(`^(__templ_es\d_[0-9a-f]+)\(`)
	classID  = regexp.MustCompile(`^ec\d_[0-9a-f]+$`)
)

// judge checks one context's output against the model events and the definition invariants.
func judge(out []byte, want []event, registered map[string]bool) error {
	toks, err := htmltok.Tokens(out)
	if err != nil {
		return err
	}
	defined := map[string]int{} // script function / class id -> number of definitions seen so far
	var scripts, handlers []string
	var wantCaps, wantHandlerCaps [][]any
	wi := 0
	next := func(kind string) (event, error) {
		if wi >= len(want) {
			return event{}, fmt.Errorf("unexpected %s: the history denotes no further use", kind)
		}
		e := want[wi]
		wi++
		if e.Kind != kind {
			return e, fmt.Errorf("found %s where the history denotes %s %+v", kind, e.Kind, e)
		}
		return e, nil
	}
	for i := 0; i < len(toks); i++ {
		t := toks[i]
		attr := func(name string) (string, bool) {
			for _, a := range t.Attrs {
				if a.Name == name {
					return a.Val, true
				}
			}
			return "", false
		}
		switch {
		case t.Type == "start" && t.Name == "script":
			body := ""
			if i+1 < len(toks) && toks[i+1].Type == "text" {
				body = toks[i+1].Data
				i++
			}
			if ty, _ := attr("type"); ty == "text/plain" {
				id, _ := attr("id")
				e, err := next("once")
				if err != nil {
					return err
				}
				if e.ID != id {
					return fmt.Errorf("once content %q where %q is due", id, e.ID)
				}
				continue
			}
			if defs := funcDef.FindAllStringSubmatch(body, -1); len(defs) > 0 {
				for _, d := range defs {
					defined[d[1]]++
					if defined[d[1]] > 1 {
						return fmt.Errorf("script function %s is defined a second time in this context", d[1])
					}
				}
				scripts = append(scripts, body)
				continue
			}
			// a call element
			e, err := next("call")
			if err != nil {
				return fmt.Errorf("%v (script body %q)", err, body)
			}
			if m := funcCall.FindStringSubmatch(body); m != nil && defined[m[1]] == 0 {
				return fmt.Errorf("call %q precedes the definition of %s", body, m[1])
			}
			scripts = append(scripts, body)
			wantCaps = append(wantCaps, e.Cap)
		case t.Type == "start" && t.Name == "style":
			body := ""
			if i+1 < len(toks) && toks[i+1].Type == "text" {
				body = toks[i+1].Data
				i++
			}
			for _, r := range csstok.ParseRules(body) {
				sel := strings.TrimPrefix(strings.TrimSpace(csstok.Text(r.Prelude)), ".")
				defined[sel]++
				if defined[sel] > 1 {
					return fmt.Errorf("css rule .%s is emitted a second time in this context", sel)
				}
				if registered[sel] {
					return fmt.Errorf("css class %s is registered with the middleware but was inlined", sel)
				}
			}
		case (t.Type == "start" || t.Type == "selfclosing") && (t.Name == "button" || t.Name == "div" || t.Name == "a" || t.Name == "input"):
			e, err := next("elem")
			if err != nil {
				return err
			}
			if e.Tag != t.Name {
				return fmt.Errorf("<%s> where <%s> is due", t.Name, e.Tag)
			}
			cv, has := attr("class")
			if has != e.HasClass || cv != e.Classes {
				return fmt.Errorf("<%s class=%q> but the use denotes class=%q", t.Name, cv, e.Classes)
			}
			for _, c := range strings.Fields(cv) {
				if classID.MatchString(c) && defined[c] == 0 && !registered[c] {
					return fmt.Errorf("class %s is used before (or without) its rule being emitted", c)
				}
			}
			var hs []string
			for _, a := range t.Attrs {
				if strings.HasPrefix(a.Name, "on") {
					hs = append(hs, a.Val)
					if m := funcCall.FindStringSubmatch(a.Val); m != nil && defined[m[1]] == 0 {
						return fmt.Errorf("handler %q precedes the definition of %s", a.Val, m[1])
					}
				}
			}
			if len(hs) != len(e.Handlers) {
				return fmt.Errorf("<%s> has %d handlers, the use denotes %d", t.Name, len(hs), len(e.Handlers))
			}
			handlers = append(handlers, hs...)
			wantHandlerCaps = append(wantHandlerCaps, e.Handlers...)
		case t.Type == "start" && t.Name == "i":
			if _, err := next("fixed"); err != nil {
				return err
			}
		case t.Type == "start" && t.Name == "section":
			if _, err := next("section-start"); err != nil {
				return err
			}
		case t.Type == "end" && t.Name == "section":
			if _, err := next("section-end"); err != nil {
				return err
			}
		}
	}
	if wi != len(want) {
		return fmt.Errorf("%d of the %d uses the history denotes are missing from the output (next: %+v)", len(want)-wi, len(want), want[wi])
	}
	// evaluation: all script elements in order, then every handler
	r := engine.RunSeq(append(append([]string{}, scripts...), handlers...), "")
	if r.Err != "" {
		return fmt.Errorf("emitted JavaScript fails: %s (script %d)", r.Err, r.ErrIndex)
	}
	var wantAll []string
	for _, c := range append(wantCaps, wantHandlerCaps...) {
		b, _ := json.Marshal(c)
		n, err := engine.NormalizeJSON(string(b))
		if err != nil {
			panic(err)
		}
		wantAll = append(wantAll, n)
	}
	if fmt.Sprint(r.Captured) != fmt.Sprint(wantAll) {
		return fmt.Errorf("calls executed %v, the history denotes %v", r.Captured, wantAll)
	}
	return nil
}

func renderInto(ctx context.Context, uses []fx.EUse, w io.Writer) (err error) {
	defer func() {
		if x := recover(); x != nil {
			err = fmt.Errorf("panic: %v", x)
		}
	}()
	return fx.EUses(uses).Render(ctx, w)
}

func decide(c Case) error {
	if len(c.Bare) > 0 {
		return decideBare(c)
	}
	registered := map[string]bool{}
	var regClasses []templ.CSSClass
	for _, r := range c.Registered {
		cl := fx.ECSS(r.A, r.N)
		if !registered[cl.ClassName()] {
			registered[cl.ClassName()] = true
			regClasses = append(regClasses, cl)
		}
	}
	// group histories by context, in order
	type ctxState struct {
		buf   bytes.Buffer
		model *model
	}
	states := map[int]*ctxState{}
	ctxs := map[int]context.Context{}
	var order []int
	renderOne := func(h History, ctx context.Context, st *ctxState) error {
		st.model.walk(h.Uses)
		return renderInto(ctx, h.Uses, &st.buf)
	}
	if c.Nested && len(c.Registered) == 0 {
		// the histories of the other contexts are rendered from inside context 0's writer
		var pending []History
		for _, h := range c.Histories {
			if h.Ctx != 0 {
				pending = append(pending, h)
			}
		}
		ctxOf := func(id int) (context.Context, *ctxState) {
			if states[id] == nil {
				states[id] = &ctxState{model: &model{once: map[int]bool{}}}
				order = append(order, id)
				ctxs[id] = templ.InitializeContext(context.Background())
			}
			return ctxs[id], states[id]
		}
		var nestedErr error
		hook := func() {
			if len(pending) == 0 {
				return
			}
			h := pending[0]
			pending = pending[1:]
			ctx, st := ctxOf(h.Ctx)
			if err := renderOne(h, ctx, st); err != nil && nestedErr == nil {
				nestedErr = err
			}
		}
		for _, h := range c.Histories {
			if h.Ctx != 0 {
				continue
			}
			ctx, st := ctxOf(0)
			st.model.walk(h.Uses)
			if err := renderInto(ctx, h.Uses, &hookWriter{buf: &st.buf, hook: hook}); err != nil {
				return fmt.Errorf("render: %v", err)
			}
		}
		for len(pending) > 0 {
			hook()
		}
		if nestedErr != nil {
			return fmt.Errorf("render: %v", nestedErr)
		}
		for _, id := range order {
			st := states[id]
			if err := judge(st.buf.Bytes(), st.model.evs, registered); err != nil {
				return fmt.Errorf("context %d (its renders interleaved with other contexts' at write boundaries): %v; output %q", id, err, clip(st.buf.String()))
			}
		}
		return nil
	}
	for _, h := range c.Histories {
		st := states[h.Ctx]
		if st == nil {
			st = &ctxState{model: &model{once: map[int]bool{}}}
			states[h.Ctx] = st
			order = append(order, h.Ctx)
			ctx := context.Background()
			if c.PreInit {
				ctx = templ.InitializeContext(ctx)
			}
			ctxs[h.Ctx] = ctx
		}
		if len(regClasses) > 0 {
			// through the middleware: the context of the request is prepared by it. A shared context
			// is modelled by rendering all of that context's histories inside one request.
			continue
		}
		if !c.PreInit {
			// an uninitialised context cannot be shared between renders: each render creates its own state
			ctxs[h.Ctx] = templ.InitializeContext(ctxs[h.Ctx])
		}
		if h.Nonce != "" {
			ctxs[h.Ctx] = templ.WithNonce(ctxs[h.Ctx], h.Nonce)
		}
		if err := renderOne(h, ctxs[h.Ctx], st); err != nil {
			return fmt.Errorf("render: %v", err)
		}
	}
	if len(regClasses) > 0 {
		// one middleware serves every request, as in a real server: each context of the case is
		// one request to it, and what one request rendered must not be known to the next
		var id int
		var st *ctxState
		var rerr error
		next := http.HandlerFunc(func(w http.ResponseWriter, r *http.Request) {
			rctx := r.Context()
			for _, h := range c.Histories {
				if h.Ctx == id {
					if h.Nonce != "" {
						rctx = templ.WithNonce(rctx, h.Nonce)
					}
					if err := renderOne(h, rctx, st); err != nil {
						rerr = err
					}
				}
			}
		})
		initial := regClasses
		if c.LaterFrom > 0 && c.LaterFrom < len(regClasses) {
			initial = regClasses[:c.LaterFrom]
		}
		mw := templ.NewCSSMiddleware(next, initial...)
		if len(initial) < len(regClasses) {
			for _, cl := range regClasses[len(initial):] {
				if cc, ok := cl.(templ.ComponentCSSClass); ok {
					mw.CSSHandler.Classes = append(mw.CSSHandler.Classes, cc)
				}
			}
		}
		for _, id = range order {
			st = states[id]
			rerr = nil
			mw.ServeHTTP(httptest.NewRecorder(), httptest.NewRequest("GET", "/page", nil))
			if rerr != nil {
				return fmt.Errorf("render: %v", rerr)
			}
			// the stylesheet endpoint serves every registered rule exactly once
			w := httptest.NewRecorder()
			mw.ServeHTTP(w, httptest.NewRequest("GET", "/styles/templ.css", nil))
			seen := map[string]int{}
			for _, r := range csstok.ParseRules(w.Body.String()) {
				seen[strings.TrimPrefix(strings.TrimSpace(csstok.Text(r.Prelude)), ".")]++
			}
			for name := range registered {
				if seen[name] != 1 {
					return fmt.Errorf("stylesheet endpoint serves rule .%s %d times: %q", name, seen[name], w.Body.String())
				}
			}
		}
	}
	for _, id := range order {
		st := states[id]
		if err := judge(st.buf.Bytes(), st.model.evs, registered); err != nil {
			return fmt.Errorf("context %d: %v; output %q", id, err, clip(st.buf.String()))
		}
	}
	// independence: the histories of each context rendered alone give the same bytes
	if len(regClasses) == 0 {
		for _, id := range order {
			ctx := templ.InitializeContext(context.Background())
			var buf bytes.Buffer
			for _, h := range c.Histories {
				if h.Ctx == id {
					if h.Nonce != "" {
						ctx = templ.WithNonce(ctx, h.Nonce)
					}
					if err := renderInto(ctx, h.Uses, &buf); err != nil {
						return fmt.Errorf("render alone: %v", err)
					}
				}
			}
			if !bytes.Equal(buf.Bytes(), states[id].buf.Bytes()) {
				return fmt.Errorf("context %d rendered among other contexts gives %q, alone %q", id, clip(states[id].buf.String()), clip(buf.String()))
			}
		}
	}
	return nil
}

func clip(s string) string {
	if len(s) > 1500 {
		return s[:1500] + fmt.Sprintf("...(%d bytes)", len(s))
	}
	return s
}

func init() {
	ev.RegisterReplay("c12.histories", func(raw json.RawMessage) error {
		var c Case
		if err := json.Unmarshal(raw, &c); err != nil {
			return err
		}
		return decide(c)
	})
}

// ---------- generators ----------

var kinds = []string{"script-call", "on-attr", "on-attr2", "on-attr-void", "on-attr-cond", "on-attr-cond2", "on-attr-cond2", "class-direct", "class-kv", "class-classes", "class-slice", "class-cssclasses", "class-func", "class-mixed",
	"once-block", "once-block", "once-fixed", "wrap", "jsfunc-call", "jsfunc-attr"}

func genUses(depth, max int) *rapid.Generator[[]fx.EUse] {
	return rapid.SliceOfN(rapid.Custom(func(t *rapid.T) fx.EUse {
		u := fx.EUse{
			Kind: rapid.SampledFrom(kinds).Draw(t, "kind"),
			A:    rapid.IntRange(0, 3).Draw(t, "a"),
			B:    rapid.IntRange(0, 2).Draw(t, "b"),
			N:    rapid.SampledFrom([]int{1, 1, 2, 50}).Draw(t, "n"),
			S:    rapid.SampledFrom([]string{"x", "y", "a'b", "</script>", "é"}).Draw(t, "s"),
			On:   rapid.Bool().Draw(t, "on"),
		}
		if (u.Kind == "once-block" || u.Kind == "wrap") && depth > 0 {
			u.Kids = genUses(depth-1, 4).Draw(t, "kids")
		}
		return u
	}), 0, max)
}

func useKeys(us []fx.EUse, add func(thing, kind string)) {
	for _, u := range us {
		switch {
		case u.Kind == "script-call" || u.Kind == "on-attr" || u.Kind == "on-attr-void":
			add(fmt.Sprintf("s%d", u.A%3), u.Kind)
		case u.Kind == "on-attr2":
			add(fmt.Sprintf("s%d", u.A%3), u.Kind)
			add(fmt.Sprintf("s%d", u.B%3), u.Kind)
		case u.Kind == "on-attr-cond" || u.Kind == "on-attr-cond2":
			if u.On && (u.Kind == "on-attr-cond" || u.N != 50) {
				add(fmt.Sprintf("s%d", u.A%3), u.Kind)
			} else if u.Kind == "on-attr-cond" || u.N != 50 || u.On {
				add(fmt.Sprintf("s%d", u.B%3), u.Kind)
			}
		case strings.HasPrefix(u.Kind, "class-"):
			add(cname(u.A, u.N), u.Kind)
		case u.Kind == "once-block":
			add(fmt.Sprintf("h%d", u.A%4), u.Kind)
		case u.Kind == "once-fixed":
			add("hf", u.Kind)
		}
		useKeys(u.Kids, add)
	}
}

func nontrivial(c Case) bool {
	perCtx := map[int]map[string]map[string]int{}
	for _, h := range c.Histories {
		if perCtx[h.Ctx] == nil {
			perCtx[h.Ctx] = map[string]map[string]int{}
		}
		useKeys(h.Uses, func(thing, kind string) {
			if perCtx[h.Ctx][thing] == nil {
				perCtx[h.Ctx][thing] = map[string]int{}
			}
			perCtx[h.Ctx][thing][kind]++
		})
	}
	for _, things := range perCtx {
		for thing, kinds := range things {
			total := 0
			for _, n := range kinds {
				total += n
			}
			if total >= 2 && (len(kinds) >= 2 || strings.HasPrefix(thing, "h")) {
				return true
			}
		}
	}
	return false
}

// TestPropNested: context 0 renders a long document with many distinct css classes (so that
// templ's 4 KiB write buffer spills at many different places, also inside a <style> element),
// and each spill lets another context render.
func TestPropNested(t *testing.T) {
	rapid.Check(t, func(t *rapid.T) {
		c := Case{Nested: true}
		var long []fx.EUse
		for i, n := 0, rapid.IntRange(40, 160).Draw(t, "nlong"); i < n; i++ {
			kind := rapid.SampledFrom([]string{"class-direct", "class-direct", "class-kv", "class-mixed", "on-attr", "script-call", "class-slice"}).Draw(t, "kind")
			long = append(long, fx.EUse{Kind: kind, A: rapid.IntRange(0, 2).Draw(t, "a"), B: rapid.IntRange(0, 2).Draw(t, "b"), N: 1 + i, On: true,
				S: rapid.SampledFrom([]string{"x", "y"}).Draw(t, "s")})
		}
		c.Histories = append(c.Histories, History{Ctx: 0, Uses: long})
		for i, n := 0, rapid.IntRange(2, 12).Draw(t, "nother"); i < n; i++ {
			c.Histories = append(c.Histories, History{Ctx: 1 + rapid.IntRange(0, 2).Draw(t, "octx"), Uses: genUses(1, 6).Draw(t, "ouses")})
		}
		rec.Eval(1)
		rec.Class("renders of other contexts nested in context 0's writes")
		rec.NonTrivial(fmt.Sprint(c), func() any {
			return map[string]any{"nested": true, "uses_in_context_0": len(long), "other_histories": len(c.Histories) - 1}
		})
		if err := decide(c); err != nil {
			rec.Fail(t, c, "%v", err)
		}
	})
}

func TestPropBare(t *testing.T) {
	rapid.Check(t, func(t *rapid.T) {
		var c Case
		for i, n := 0, rapid.IntRange(2, 6).Draw(t, "n"); i < n; i++ {
			c.Bare = append(c.Bare, Bare{
				Kind: rapid.SampledFrom([]string{"script", "join", "css-func", "script-items", "once-fixed", "once-block"}).Draw(t, "kind"),
				A:    rapid.IntRange(0, 2).Draw(t, "a"), B: rapid.IntRange(0, 2).Draw(t, "b"),
				N: rapid.SampledFrom([]int{1, 2}).Draw(t, "n"), S: rapid.SampledFrom([]string{"x", "y", "</script>"}).Draw(t, "s"),
				Via: rapid.SampledFrom([]string{"render", "handler", "gohtml"}).Draw(t, "via"),
			})
		}
		rec.Eval(1)
		rec.Class("top-level components that are not generated templates, plain contexts")
		repeat := false
		for i, b := range c.Bare {
			for _, o := range c.Bare[:i] {
				if o.Kind == b.Kind && o.A%3 == b.A%3 {
					repeat = true
				}
			}
		}
		if repeat {
			rec.NonTrivial(fmt.Sprint(c), func() any { return c })
		}
		if err := decide(c); err != nil {
			rec.Fail(t, c, "%v", err)
		}
	})
}

func TestPropHistories(t *testing.T) {
	rapid.Check(t, func(t *rapid.T) {
		c := Case{PreInit: rapid.Bool().Draw(t, "preinit")}
		nh := rapid.IntRange(1, 4).Draw(t, "nhist")
		for i := 0; i < nh; i++ {
			h := History{Ctx: rapid.IntRange(0, 2).Draw(t, "ctx"), Uses: genUses(2, 14).Draw(t, "uses")}
			if rapid.IntRange(0, 3).Draw(t, "withNonce") == 0 {
				h.Nonce = rapid.SampledFrom([]string{"n0nce", "abc123", "r4nd0m=="}).Draw(t, "nonce")
				rec.Class("nonce set on a context that may already hold rendering state")
			}
			c.Histories = append(c.Histories, h)
		}
		if rapid.IntRange(0, 3).Draw(t, "mw") == 0 {
			for i, n := 0, rapid.IntRange(1, 3).Draw(t, "nreg"); i < n; i++ {
				c.Registered = append(c.Registered, CSSRef{A: rapid.IntRange(0, 2).Draw(t, "ra"), N: rapid.SampledFrom([]int{1, 2}).Draw(t, "rn")})
			}
		}
		rec.Eval(1)
		if len(c.Registered) > 1 && rapid.IntRange(0, 2).Draw(t, "later") == 0 {
			c.LaterFrom = rapid.IntRange(1, len(c.Registered)-1).Draw(t, "laterFrom")
			rec.Class("classes added to the middleware after it was made")
		}
		if len(c.Registered) > 0 {
			rec.Class("with-css-middleware")
		}
		if len(c.Histories) > 1 {
			rec.Class("several-histories")
		}
		if nontrivial(c) {
			rec.NonTrivial(fmt.Sprint(c), func() any { return c })
		}
		if err := decide(c); err != nil {
			rec.Fail(t, c, "%v", err)
		}
	})
}

func TestReplay(t *testing.T) {
	for _, r := range ev.RunReplays() {
		t.Logf("%+v", r)
	}
}
