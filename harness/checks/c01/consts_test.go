package c01

import (
	"encoding/json"
	"fmt"
	"os"
	"strconv"
	"strings"
	"testing"
	"time"

	"verif/batch"
	"verif/ev"
	"verif/oracle/htmltok"
	"verif/tc"
)

// ConstCase: a string expression whose value is known when the code is generated - a Go string
// literal written directly in the template - in a text or attribute sink.
type ConstCase struct {
	Literal ev.QStr `json:"literal"` // Go source of the literal, e.g. "\x3cb\x3e"
}

var recConst = ev.New("C01", "c01.constants",
	"templates that interpolate a Go string literal written in the template itself (interpreted literals with \\x, \\u, octal and control escapes that spell markup, raw literals with backslashes and backticks, quotes, entities, format verbs, braces) as element text, as an attribute value and between static text are generated with /repo's generator, compiled and rendered at check time; "+
		"oracle: the HTML5 tokenizer sees exactly <p>, one text run equal to what strconv.Unquote makes of the same literal, </p> (one title attribute with that value; the static neighbours around the value) - a value known at generation time is still a value, not markup. Enumerated: every literal x 3 sinks; a literal templ generate does not accept is not judged")

// constLiterals are Go string literals as they are written in the template.
var constLiterals = []string{
	`"\x3cb\x3eZ"`, `"<b>"`, `"\074b\076"`, `"a\\b"`, `"\"q\" 's'"`, "\"`\"", "`<b>raw</b>`", "`a\\x3cb`", "`\\`", `"tab\there"`, `"nl\nhere"`,
	`"   "`, `"é世😀"`, `"&amp; &#60;b&#62;"`, `"</p><script>alert(1)</script>"`, `"%s %d %%"`, `"{{ x }} { y }"`, `"\\x3c"`, `"\x26lt;"`, `"\a\b\f\v"`, `"\U0001F600\x22"`,
	`"\x3c/p\x3e\x3cscript\x3e"`, "`\\x3cb\\x3e`", `"\x3c!--"`, `" \x22 onmouseover=\x22x"`, `"\047"`, `"\n\x3cb\x3e\n"`,
}

func constTemplate(i int, lit string) string {
	return fmt.Sprintf("package main\n\ntempl constText%d() {\n\t<p>{ %s }</p>\n}\n\ntempl constAttr%d() {\n\t<div title={ %s } data-x=\"1\">t</div>\n}\n\ntempl constMixed%d() {\n\t<p>a{ %s }b<b>{ %s }</b></p>\n}\n", i, lit, i, lit, i, lit, lit)
}

// renderConsts generates, compiles and renders the templates of the given literals; out[literal]
// holds the three documents (text, attr, mixed). Literals that templ generate rejects are left out.
func renderConsts(lits []string) (map[string][3]string, error) {
	files := map[string]string{}
	var reg strings.Builder
	reg.WriteString("package main\n\nimport (\n\t\"bytes\"\n\t\"context\"\n\t\"encoding/json\"\n\t\"os\"\n\n\t\"github.com/a-h/templ\"\n)\n\nvar all = map[string][3]func() templ.Component{\n")
	n := 0
	for i, lit := range lits {
		src := constTemplate(i, lit)
		if _, _, err := tc.Generate(src, fmt.Sprintf("c%d.templ", i)); err != nil {
			recConst.Class("literal not accepted by templ generate")
			continue
		}
		files[fmt.Sprintf("c%d.templ", i)] = src
		fmt.Fprintf(&reg, "\t%s: {constText%d, constAttr%d, constMixed%d},\n", strconv.Quote(lit), i, i, i)
		n++
	}
	reg.WriteString("}\n\nfunc main() {\n\tout := map[string][3]string{}\n\tfor k, fs := range all {\n\t\tvar r [3]string\n\t\tfor j, f := range fs {\n\t\t\tvar buf bytes.Buffer\n\t\t\tif err := f().Render(context.Background(), &buf); err != nil {\n\t\t\t\tr[j] = \"render error: \" + err.Error()\n\t\t\t} else {\n\t\t\t\tr[j] = buf.String()\n\t\t\t}\n\t\t}\n\t\tout[k] = r\n\t}\n\t_ = json.NewEncoder(os.Stdout).Encode(out)\n}\n")
	if n == 0 {
		return map[string][3]string{}, nil
	}
	files["main.go"] = reg.String()
	dir := batch.Dir()
	defer os.RemoveAll(dir)
	bin, err := batch.Build(dir, files, batch.Options{})
	if err != nil {
		return nil, err
	}
	stdout, stderr, err := batch.Run(bin, nil, nil, 120*time.Second)
	if err != nil {
		return nil, fmt.Errorf("%v: %s", err, stderr)
	}
	out := map[string][3]string{}
	if err := json.Unmarshal(stdout, &out); err != nil {
		return nil, err
	}
	return out, nil
}

func judgeConst(lit string, docs [3]string) error {
	val, err := strconv.Unquote(lit)
	if err != nil {
		panic("harness: " + lit + ": " + err.Error())
	}
	v := htmltok.NormNewlines(val)
	text := func(s string) []htmltok.Tok {
		if s == "" {
			return nil
		}
		return []htmltok.Tok{{Type: "text", Data: s}}
	}
	wants := [3][]htmltok.Tok{
		append(append([]htmltok.Tok{{Type: "start", Name: "p"}}, text(v)...), htmltok.Tok{Type: "end", Name: "p"}),
		{{Type: "start", Name: "div", Attrs: []htmltok.Attr{{Name: "title", Val: v}, {Name: "data-x", Val: "1"}}}, {Type: "text", Data: "t"}, {Type: "end", Name: "div"}},
		append(append([]htmltok.Tok{{Type: "start", Name: "p"}, {Type: "text", Data: "a" + v + "b"}, {Type: "start", Name: "b"}}, text(v)...), htmltok.Tok{Type: "end", Name: "b"}, htmltok.Tok{Type: "end", Name: "p"}),
	}
	for j, sink := range []string{"element text", "attribute value", "text between static text"} {
		got, err := htmltok.Tokens([]byte(docs[j]))
		if err != nil {
			return fmt.Errorf("{ %s } as %s: tokenizer error on %q: %v", lit, sink, docs[j], err)
		}
		if fmt.Sprint(got) != fmt.Sprint(wants[j]) {
			return fmt.Errorf("{ %s } as %s: the tokenizer sees %v, the literal denotes %q (%v); output %q", lit, sink, got, v, wants[j], docs[j])
		}
	}
	return nil
}

func decideConst(c ConstCase) error {
	out, err := renderConsts([]string{string(c.Literal)})
	if err != nil {
		if be, ok := err.(*batch.BuildError); ok {
			return fmt.Errorf("{ %s }: the generated code does not compile: %v", c.Literal, be)
		}
		panic("harness: " + err.Error())
	}
	docs, ok := out[string(c.Literal)]
	if !ok {
		return nil // not accepted
	}
	return judgeConst(string(c.Literal), docs)
}

func init() {
	ev.RegisterReplay("c01.constants", func(raw json.RawMessage) error {
		var c ConstCase
		if err := json.Unmarshal(raw, &c); err != nil {
			return err
		}
		return decideConst(c)
	})
}

func TestPropConstants(t *testing.T) {
	if shard, _ := ev.Shard(); shard != 0 {
		return // one batch, the same in every shard
	}
	out, err := renderConsts(constLiterals)
	if err != nil {
		// find the literal that breaks the build
		for _, lit := range constLiterals {
			if e := decideConst(ConstCase{Literal: ev.QStr(lit)}); e != nil {
				recConst.Fail(t, ConstCase{Literal: ev.QStr(lit)}, "%v", e)
			}
		}
		panic("harness: the batch fails but no single literal does: " + err.Error())
	}
	n := 0
	for _, lit := range constLiterals {
		docs, ok := out[lit]
		if !ok {
			continue
		}
		n += 3
		recConst.Eval(3)
		if err := judgeConst(lit, docs); err != nil {
			recConst.Fail(t, ConstCase{Literal: ev.QStr(lit)}, "%v", err)
		}
	}
	recConst.Enumerated(int64(n))
}
