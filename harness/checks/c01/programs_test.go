package c01

import (
	"encoding/json"
	"fmt"
	"strings"
	"testing"
	"time"

	"pgregory.net/rapid"

	"verif/batch"
	"verif/ev"
	"verif/oracle/htmltok"
	"verif/sgen"
	"verif/tbatch"
	"verif/tc"
	"verif/tgen"
)

// ProgCase: a generated templ program (generated surroundings: elements, attributes of every
// kind, control flow, component calls, raw-text elements) rendered with byte-exact adversarial
// strings as its arguments.
type ProgCase struct {
	File *tgen.File `json:"file"`
	S1   ev.QStr    `json:"s1"`
	S2   ev.QStr    `json:"s2"`
	XS   []ev.QStr  `json:"xs"`
	B1   bool       `json:"b1"`
	B2   bool       `json:"b2"`
	N    int        `json:"n"`
}

func (c ProgCase) args() tgen.Args {
	a := tgen.Args{S1: string(c.S1), S2: string(c.S2), B1: c.B1, B2: c.B2, N: c.N}
	for _, x := range c.XS {
		a.XS = append(a.XS, string(x))
	}
	return a
}

var recProg = ev.New("C01", "c01.programs",
	"generated surroundings: tgen programs (nested elements, constant / expression / boolean / conditional / class / href attributes in several spellings, if / for / switch, component calls with blocks, comments, style and script elements) are generated with /repo's generator, compiled, and rendered with argument strings drawn from the HTML-adversarial domain, passed byte for byte (invalid UTF-8, NUL, CR included). "+
		"Oracle: the markup tokens an HTML5 tokenizer sees - start tags with their attribute names and (newline-normalised) values in order, end tags, comments, doctype - must be exactly those of tgen's reference interpreter for these arguments, i.e. the tags and attributes the author wrote; text runs are not compared here (c01.sinks and c02.renders do that). "+
		"Non-trivial = some string argument is sensitive (metacharacter, control, invalid byte) and the program interpolates strings in at least two sink kinds; distinct by (program, arguments)")

type mtok struct {
	Kind, Name string
	Attrs      [][2]string
}

func (m mtok) String() string {
	var sb strings.Builder
	sb.WriteString(m.Kind + " " + m.Name)
	for _, a := range m.Attrs {
		fmt.Fprintf(&sb, " %s=%q", a[0], a[1])
	}
	return sb.String()
}

func expectedMarkup(d tgen.Denotation) []mtok {
	var out []mtok
	for _, a := range d.Atoms {
		kind, name, attrs := a.Tag()
		if kind == "" {
			continue
		}
		m := mtok{Kind: kind, Name: name}
		for _, at := range attrs {
			m.Attrs = append(m.Attrs, [2]string{at[0], htmltok.NormNewlines(at[1])})
		}
		out = append(out, m)
	}
	return out
}

func actualMarkup(out []byte) ([]mtok, error) {
	toks, err := htmltok.Tokens(out)
	if err != nil {
		return nil, err
	}
	var res []mtok
	for _, t := range toks {
		switch t.Type {
		case "start", "selfclosing":
			m := mtok{Kind: "start", Name: t.Name}
			for _, a := range t.Attrs {
				m.Attrs = append(m.Attrs, [2]string{a.Name, a.Val})
			}
			res = append(res, m)
		case "end":
			res = append(res, mtok{Kind: "end", Name: t.Name})
		case "comment":
			res = append(res, mtok{Kind: "comment"})
		case "doctype":
			res = append(res, mtok{Kind: "doctype"})
		}
	}
	return res, nil
}

func judgeProg(f *tgen.File, a tgen.Args, r tbatch.Result) error {
	d := tgen.Eval(f, a)
	if d.Err {
		return nil // a failing expression: C02 / C10 decide what must happen
	}
	if r.Err != "" {
		return fmt.Errorf("render failed: %s", r.Err)
	}
	got, err := actualMarkup(r.Out)
	if err != nil {
		return fmt.Errorf("tokenizer error: %v; output %q", err, clipP(string(r.Out)))
	}
	want := expectedMarkup(d)
	for i := 0; i < len(want) || i < len(got); i++ {
		switch {
		case i >= len(got):
			return fmt.Errorf("the tokenizer sees %d markup tokens, the author wrote %d; first missing: %v; output %q", len(got), len(want), want[i], clipP(string(r.Out)))
		case i >= len(want):
			return fmt.Errorf("the tokenizer sees a markup token the author did not write: %v; output %q", got[i], clipP(string(r.Out)))
		case got[i].String() != want[i].String():
			return fmt.Errorf("markup token %d: the tokenizer sees %v, the author wrote %v; output %q", i, got[i], want[i], clipP(string(r.Out)))
		}
	}
	return nil
}

func clipP(s string) string {
	if len(s) > 1500 {
		return s[:1500] + "..."
	}
	return s
}

func decideProg(c ProgCase) error {
	tgen.Normalize(c.File)
	bin, err := tbatch.Build([]*tgen.File{c.File}, batch.Options{})
	if err != nil {
		if _, ok := err.(*batch.GenError); ok {
			return nil
		}
		if _, ok := err.(*batch.BuildError); ok {
			return nil // C02's business
		}
		panic("harness: " + err.Error())
	}
	defer bin.Close()
	res, err := bin.Run([]tbatch.Job{tbatch.Bytes(0, c.args())}, nil, 120*time.Second)
	if err != nil {
		panic("harness: " + err.Error())
	}
	if e := judgeProg(c.File, c.args(), res[0]); e != nil {
		return fmt.Errorf("%v\n%s", e, bin.Sources[0])
	}
	return nil
}

func init() {
	ev.RegisterReplay("c01.programs", func(raw json.RawMessage) error {
		var c ProgCase
		if err := json.Unmarshal(raw, &c); err != nil {
			return err
		}
		return decideProg(c)
	})
}

// sinkKinds counts in how many kinds of position the program interpolates a string.
func sinkKinds(f *tgen.File) int {
	kinds := map[string]bool{}
	var walk func(ns []tgen.Node)
	var attrs func(as []tgen.Attr)
	attrs = func(as []tgen.Attr) {
		for i := range as {
			switch as[i].Kind {
			case "expr", "class", "href":
				kinds["attr:"+as[i].Kind] = true
			case "cond":
				attrs(as[i].Then)
				attrs(as[i].Else)
			}
		}
	}
	walk = func(ns []tgen.Node) {
		for i := range ns {
			n := &ns[i]
			switch n.Kind {
			case "expr":
				kinds["text"] = true
			case "element":
				attrs(n.Attrs)
			case "script", "style":
				kinds[n.Kind] = true
			}
			walk(n.Kids)
			walk(n.Else)
			for j := range n.ElseIfs {
				walk(n.ElseIfs[j].Kids)
			}
			for j := range n.Cases {
				walk(n.Cases[j].Kids)
			}
		}
	}
	for i := range f.Templates {
		walk(f.Templates[i].Body)
	}
	return len(kinds)
}

func TestPropPrograms(t *testing.T) {
	perBatch := ev.Pick(30, 50)
	tuples := ev.Pick(10, 20)
	o := tgen.DefaultOptions
	o.Ticks = false
	o.NoErrCalls = true
	o.ScriptExprs = true
	g := tgen.GenFile(o)
	str := rapid.OneOf(sgen.HTMLString(), sgen.HTMLString(), rapid.SampledFrom([]string{"", "a", "x y"}))
	rapid.Check(t, func(t *rapid.T) {
		var files []*tgen.File
		for len(files) < perBatch {
			f := g.Draw(t, "file")
			src, _ := tgen.Print(f, "P")
			if _, _, err := tc.Generate(src, "p.templ"); err != nil {
				continue
			}
			files = append(files, f)
		}
		var cases []ProgCase
		var jobs []tbatch.Job
		for k := range files {
			for j := 0; j < tuples; j++ {
				c := ProgCase{File: files[k], S1: ev.QStr(str.Draw(t, "s1")), S2: ev.QStr(str.Draw(t, "s2")),
					B1: rapid.Bool().Draw(t, "b1"), B2: rapid.Bool().Draw(t, "b2"), N: rapid.IntRange(0, 3).Draw(t, "n")}
				for i, n := 0, rapid.IntRange(0, 3).Draw(t, "nxs"); i < n; i++ {
					c.XS = append(c.XS, ev.QStr(str.Draw(t, "x")))
				}
				if j == 0 {
					// one tuple per program with a value around / beyond templ's write-buffer size
					c.S1 = ev.QStr(longString(t, string(c.S1)))
				}
				cases = append(cases, c)
				jobs = append(jobs, tbatch.Bytes(k, c.args()))
			}
		}
		bin, err := tbatch.Build(files, batch.Options{})
		if err != nil {
			if _, ok := err.(*batch.BuildError); ok {
				recProg.Class("batch with a program that does not compile (C02's business)")
				return
			}
			panic("harness: " + err.Error())
		}
		defer bin.Close()
		res, err := bin.Run(jobs, nil, 180*time.Second)
		if err != nil {
			panic("harness: " + err.Error())
		}
		for i, c := range cases {
			recProg.Eval(1)
			a := c.args()
			sensitive := sgen.Sensitive(a.S1) || sgen.Sensitive(a.S2)
			for _, x := range a.XS {
				sensitive = sensitive || sgen.Sensitive(x)
			}
			if sensitive && sinkKinds(c.File) >= 2 {
				recProg.NonTrivial(bin.Sources[jobs[i].K]+fmt.Sprint(a), func() any {
					return map[string]any{"source": clipP(bin.Sources[jobs[i].K]), "s1": c.S1, "s2": c.S2, "xs": c.XS, "output": clipP(string(res[i].Out))}
				})
			}
			if e := judgeProg(c.File, a, res[i]); e != nil {
				recProg.Fail(t, c, "%v\nargs s1=%q s2=%q xs=%q b1=%v b2=%v n=%d\n%s", e, a.S1, a.S2, a.XS, a.B1, a.B2, a.N, bin.Sources[jobs[i].K])
			}
		}
	})
}
