package c01

import (
	"bytes"
	"context"
	"encoding/json"
	"fmt"
	"os"
	"strings"
	"testing"

	"pgregory.net/rapid"

	"verif/ev"
	"verif/fx"
	"verif/oracle/htmltok"
	"verif/sgen"
)

func TestMain(m *testing.M) {
	code := m.Run()
	ev.FlushAll()
	os.Exit(code)
}

// Mark is the benign reference string: letters only, so that every sanitiser lets it through.
const Mark = "ZqMarkZq"

type Case struct {
	Sink string  `json:"sink"`
	S    ev.QStr `json:"s"`
}

var rec = ev.New("C01", "c01.sinks",
	"metamorphic: each fixture sink (every sink kind of the quantifier, in fixed surroundings incl. control flow, conditional attributes, spreads) is rendered with a benign reference string and with a generated string s; "+
		"an HTML5 tokenizer must see the same tags/attribute names in the same order, and s (newline-normalised as the tokenizer does) exactly where the reference string was. "+
		"Strings: sequences over an HTML-adversarial token alphabet, single scalar values (all of them in the thorough tier), invalid UTF-8, arbitrary strings. "+
		"Non-trivial = s contains a markup metacharacter, a control character or an invalid byte; distinct by (sink, s)")

type sinkRef struct {
	sink fx.Sink
	t0   []htmltok.Tok
}

var refs = map[string]*sinkRef{}

// brokenRefs: sinks whose rendering of the reference string is already wrong.
var brokenRefs = map[string]string{}

func render(sk fx.Sink, s string) (out []byte, err error) {
	defer func() {
		if x := recover(); x != nil {
			err = fmt.Errorf("panic while rendering: %v", x)
		}
	}()
	ctx, c := sk.Make(context.Background(), s)
	var buf bytes.Buffer
	err = c.Render(ctx, &buf)
	return buf.Bytes(), err
}

func init() {
	for _, sk := range fx.Sinks {
		out, err := render(sk, Mark)
		if err != nil {
			panic(fmt.Sprintf("fixture %s does not render the reference string: %v", sk.Name, err))
		}
		t0, err := htmltok.Tokens(out)
		if err != nil {
			panic(err)
		}
		slots := 0
		want := Mark
		if sk.Expect != nil {
			want = sk.Expect(Mark)
		}
		for _, t := range t0 {
			for _, a := range t.Attrs {
				if (sk.Expect == nil && strings.Contains(a.Val, Mark)) || (sk.Expect != nil && a.Val == want) {
					slots++
				}
			}
			if sk.Expect == nil && strings.Contains(t.Data, Mark) {
				slots++
			}
		}
		if slots == 0 && !sk.MayBeDropped {
			// The fixtures are known to carry the reference string on the unchanged tree, so this
			// is templ's doing: reported as a violation of that sink, not as harness trouble.
			brokenRefs[sk.Name] = fmt.Sprintf("the benign reference string %q does not arrive as one text run / attribute value: output %q", Mark, out)
		}
		refs[sk.Name] = &sinkRef{sink: sk, t0: t0}
	}
	ev.RegisterReplay("c01.sinks", func(raw json.RawMessage) error {
		var c Case
		if err := json.Unmarshal(raw, &c); err != nil {
			return err
		}
		return decide(c)
	})
}

func decide(c Case) error {
	ref, ok := refs[c.Sink]
	if !ok {
		return fmt.Errorf("unknown sink %s", c.Sink)
	}
	if msg, bad := brokenRefs[c.Sink]; bad {
		return fmt.Errorf("%s", msg)
	}
	s := string(c.S)
	sk := ref.sink
	out, err := render(sk, s)
	if err != nil {
		return fmt.Errorf("render error: %v", err)
	}
	t1, err := htmltok.Tokens(out)
	if err != nil {
		return fmt.Errorf("tokenizer error on %q: %v", out, err)
	}
	t0 := ref.t0
	if s == "" && sk.OmittedWhenEmpty {
		// The attribute is documented to be left out; everything else must be as written.
		return nil
	}
	ns := htmltok.NormNewlines(s)
	subst := func(v0 string) string {
		if sk.Expect == nil {
			return strings.ReplaceAll(v0, Mark, ns)
		}
		if v0 == sk.Expect(Mark) {
			return htmltok.NormNewlines(sk.Expect(s))
		}
		return v0
	}
	// Expected token sequence: the reference tokens with s in place of the reference string. A text
	// run that becomes empty produces no token; inside RCDATA elements (title, textarea) the
	// tokenizer itself turns NUL into U+FFFD.
	var want []htmltok.Tok
	rcdata := false
	for _, t := range t0 {
		w := htmltok.Tok{Type: t.Type, Name: t.Name, Data: t.Data}
		for _, a := range t.Attrs {
			w.Attrs = append(w.Attrs, htmltok.Attr{Name: a.Name, Val: subst(a.Val)})
		}
		if t.Type == "text" && sk.Expect == nil {
			w.Data = subst(t.Data)
			if rcdata {
				w.Data = strings.ReplaceAll(w.Data, "\x00", "\uFFFD")
			}
			if w.Data == "" {
				continue
			}
		}
		rcdata = t.Type == "start" && (t.Name == "title" || t.Name == "textarea")
		want = append(want, w)
	}
	if err := htmltok.SameShape(want, t1); err != nil {
		return fmt.Errorf("structure changed: %v; output %q", err, out)
	}
	for i := range want {
		for j := range want[i].Attrs {
			if w, got := want[i].Attrs[j].Val, t1[i].Attrs[j].Val; w != got {
				return fmt.Errorf("token %d attribute %s: value %q, want %q; output %q", i, want[i].Attrs[j].Name, got, w, out)
			}
		}
		if want[i].Data != t1[i].Data {
			return fmt.Errorf("token %d (%s): data %q, want %q; output %q", i, want[i].Type, t1[i].Data, want[i].Data, out)
		}
	}
	return nil
}

func note(c Case) {
	rec.Eval(1)
	rec.Class(refs[c.Sink].sink.Kind)
	if sgen.Sensitive(string(c.S)) {
		rec.NonTrivial(c.Sink+"|"+string(c.S), func() any { return c })
	}
}

// longString repeats unit (or a filler when it is empty) up to one of the sizes around templ's
// write-buffer size.
func longString(t *rapid.T, unit string) string {
	if unit == "" {
		unit = rapid.SampledFrom([]string{"x", "lorem & ipsum ", "a=b (c) ", "<b>\"'"}).Draw(t, "filler")
	}
	size := rapid.SampledFrom([]int{4095, 4096, 4097, 5000, 8192, 8193, 20000}).Draw(t, "size")
	return strings.Repeat(unit, size/len(unit)+1)[:size]
}

func TestPropSinks(t *testing.T) {
	names := make([]string, 0, len(fx.Sinks))
	for _, sk := range fx.Sinks {
		names = append(names, sk.Name)
	}
	rapid.Check(t, func(t *rapid.T) {
		c := Case{Sink: rapid.SampledFrom(names).Draw(t, "sink"), S: ev.QStr(sgen.HTMLString().Draw(t, "s"))}
		if rapid.IntRange(0, 19).Draw(t, "long") == 0 {
			// values around and beyond the size of templ's 4 KiB write buffer: a drawn string repeated
			c.S = ev.QStr(longString(t, string(c.S)))
			rec.Class("value of 4095..20000 bytes")
		}
		note(c)
		if err := decide(c); err != nil {
			rec.Fail(t, c, "%v", err)
		}
	})
}

// TestPropAllScalars puts every Unicode scalar value (thorough) or every value below U+3000 plus a
// stride of the rest (quick) through every sink, alone and between two letters.
func TestPropAllScalars(t *testing.T) {
	shard, shards := ev.Shard()
	var n int64
	sgen.AllScalars(shard, shards, func(r rune) {
		if !ev.Thorough() && r >= 0x3000 && r%257 != 0 {
			return
		}
		for _, sk := range fx.Sinks {
			for _, s := range []string{string(r), "a" + string(r) + "b"} {
				c := Case{Sink: sk.Name, S: ev.QStr(s)}
				rec.Eval(1)
				if sgen.Sensitive(s) {
					n++
					if n%100000 == 1 {
						rec.Sample(c)
					}
				}
				if err := decide(c); err != nil {
					rec.Fail(t, c, "%v", err)
				}
			}
		}
	})
	rec.Enumerated(n)
	rec.ClassN("all-scalars-sensitive", int(n))
	rec.Set("all_scalar_values_enumerated", ev.Thorough())
}

func TestReplay(t *testing.T) {
	for _, r := range ev.RunReplays() {
		t.Logf("%+v", r)
	}
}
