package c01

import (
	"bytes"
	"context"
	"encoding/json"
	"fmt"
	"testing"

	"github.com/a-h/templ"
	"pgregory.net/rapid"

	"verif/ev"
	"verif/fx"
	"verif/oracle/htmltok"
	"verif/sgen"
)

// NestedCase: a long document of elements with spread attributes is rendered to a writer that,
// on every Write it receives (templ's 4 KiB buffer spilling, at places that depend on the value
// lengths), first renders another document of the same kind - a slow client during whose write
// another request is served. Both documents must come out as when rendered alone.
type NestedCase struct {
	Main  [][]KV  `json:"main"`
	Other [][]KV  `json:"other"`
	Text  ev.QStr `json:"text"`
}

type KV struct {
	K string  `json:"k"`
	V ev.QStr `json:"v"`
}

var recNested = ev.New("C01", "c01.nested",
	"a document of 40-200 elements with spread attributes (1-4 string attributes each, values 0-120 bytes from the HTML-adversarial domain, so that templ's 4 KiB write buffer spills at many different offsets inside attribute lists) is rendered to a writer that renders another such document inside every Write call it receives; "+
		"oracle: both documents are byte-identical to their renders alone, and tokenize to the structure of the benign document. Non-trivial = the main document spills at least twice; distinct by case")

func attrsOf(list [][]KV) []templ.Attributes {
	out := make([]templ.Attributes, len(list))
	for i, kvs := range list {
		a := templ.Attributes{}
		for _, kv := range kvs {
			a[kv.K] = string(kv.V)
		}
		out[i] = a
	}
	return out
}

type nestingWriter struct {
	buf   bytes.Buffer
	hook  func()
	busy  bool
	calls int
}

func (w *nestingWriter) Write(p []byte) (int, error) {
	w.calls++
	if w.hook != nil && !w.busy {
		w.busy = true
		w.hook()
		w.busy = false
	}
	return w.buf.Write(p)
}

func decideNested(c NestedCase) (err error) {
	defer func() {
		if x := recover(); x != nil {
			err = fmt.Errorf("panic: %v", x)
		}
	}()
	mainC := func() templ.Component { return fx.SpreadMany(attrsOf(c.Main), string(c.Text)) }
	otherC := func() templ.Component { return fx.SpreadMany(attrsOf(c.Other), "other") }
	var refMain, refOther bytes.Buffer
	if err := mainC().Render(context.Background(), &refMain); err != nil {
		return fmt.Errorf("render alone: %v", err)
	}
	if err := otherC().Render(context.Background(), &refOther); err != nil {
		return fmt.Errorf("render alone: %v", err)
	}
	var nestedErr error
	w := &nestingWriter{}
	w.hook = func() {
		var ob bytes.Buffer
		if err := otherC().Render(context.Background(), &ob); err != nil && nestedErr == nil {
			nestedErr = fmt.Errorf("nested render: %v", err)
		}
		if !bytes.Equal(ob.Bytes(), refOther.Bytes()) && nestedErr == nil {
			nestedErr = fmt.Errorf("the document rendered inside another render's Write differs from its render alone: %q vs %q", clipP(ob.String()), clipP(refOther.String()))
		}
	}
	if err := mainC().Render(context.Background(), w); err != nil {
		return fmt.Errorf("render: %v", err)
	}
	if nestedErr != nil {
		return nestedErr
	}
	if !bytes.Equal(w.buf.Bytes(), refMain.Bytes()) {
		t1, _ := htmltok.Tokens(w.buf.Bytes())
		t0, _ := htmltok.Tokens(refMain.Bytes())
		shape := ""
		if e := htmltok.SameShape(t0, t1); e != nil {
			shape = fmt.Sprintf(" (the tokenizer sees another structure: %v)", e)
		}
		i := 0
		for i < w.buf.Len() && i < refMain.Len() && w.buf.Bytes()[i] == refMain.Bytes()[i] {
			i++
		}
		return fmt.Errorf("a document during whose writes another one was rendered differs from its render alone%s at byte %d: ...%q vs ...%q", shape, i, clipP(string(w.buf.Bytes()[max(0, i-60):])), clipP(string(refMain.Bytes()[max(0, i-60):])))
	}
	return nil
}

func init() {
	ev.RegisterReplay("c01.nested", func(raw json.RawMessage) error {
		var c NestedCase
		if err := json.Unmarshal(raw, &c); err != nil {
			return err
		}
		return decideNested(c)
	})
}

func TestPropNested(t *testing.T) {
	names := []string{"title", "data-a", "data-b", "aria-label", "lang", "id"}
	val := rapid.OneOf(sgen.HTMLString(), rapid.StringMatching(`[a-z =()]{0,120}`), rapid.StringMatching(`[a-z]{20,90}`))
	genList := func(t *rapid.T, label string, lo, hi int) [][]KV {
		var out [][]KV
		for i, n := 0, rapid.IntRange(lo, hi).Draw(t, label+"-n"); i < n; i++ {
			var kvs []KV
			for j, m := 0, rapid.IntRange(1, 4).Draw(t, label+"-m"); j < m; j++ {
				kvs = append(kvs, KV{K: names[(i+j)%len(names)], V: ev.QStr(val.Draw(t, label+"-v"))})
			}
			out = append(out, kvs)
		}
		return out
	}
	rapid.Check(t, func(t *rapid.T) {
		c := NestedCase{Main: genList(t, "main", 40, 200), Other: genList(t, "other", 1, 12), Text: ev.QStr(rapid.SampledFrom([]string{"t", "x<y", ""}).Draw(t, "text"))}
		recNested.Eval(1)
		recNested.NonTrivial(fmt.Sprint(len(c.Main), len(c.Other), c.Main[0]), func() any {
			return map[string]any{"elements": len(c.Main), "nested_elements": len(c.Other), "first": c.Main[0]}
		})
		if err := decideNested(c); err != nil {
			recNested.Fail(t, c, "%v", err)
		}
	})
}
