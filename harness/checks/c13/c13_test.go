package c13

import (
	"encoding/json"
	"fmt"
	"os"
	"strings"
	"testing"
	"time"

	"pgregory.net/rapid"

	"verif/batch"
	"verif/ev"
)

func TestMain(m *testing.M) {
	code := m.Run()
	ev.FlushAll()
	os.Exit(code)
}

// ---------- call-tree language ----------

type Item struct {
	Kind   string `json:"kind"`             // text | slot | call | if
	Text   string `json:"text,omitempty"`   // marker
	Callee string `json:"callee,omitempty"` // gen | once | oncefixed | flush | raw | join | fn | fnkids | fnseq | fncapture | fnwithhold | fnplainflush
	A      int    `json:"a,omitempty"`      // component / handle index
	B      int    `json:"b,omitempty"`      // second component for join
	// Arity of a join / fnseq call: 0 = the two components A, B; 1 = A alone; 3 = A, B, A; -1 = none.
	Arity  int    `json:"arity,omitempty"`
	Block  []Item `json:"block,omitempty"`
	HasBlk bool   `json:"has_block,omitempty"`
}

type Tree struct {
	Comps [][]Item `json:"comps"` // bodies of generated components C0..Cn; a body may only call components with a higher index
	Root  []Item   `json:"root"`
}

var rec = ev.New("C13", "c13.calltree",
	"generated call trees: a root template and up to 5 generated components whose bodies and child blocks are sequences of markers, children slots (0..2 per body), and calls - with or without a block, nested up to depth 4 - to generated components, once handles (block form and fixed-component form), templ.Flush, templ.Raw, templ.Join, a function component that ignores children, a hand-written one that renders templ.GetChildren, one that captures its children in a buffer of its own before writing them, a layer that withholds its block from the component it renders (templ.WithChildren(ctx, nil)), a layer that renders templ.Flush with its block into a writer without a Flush method, and a hand-written layer that renders two generated components with the context it received; "+
		"every tree is generated with /repo's generator, compiled and rendered - once with Render, once served by templ.Handler in front of a children slot that gets no block, right after a request whose render was abandoned with a block still pending -; the marker sequence must equal the one computed by a reference interpreter of the statement (a callee gets exactly its call site's block, blocks are evaluated in the caller's scope, nothing leaks to siblings or descendants, nothing is rendered twice). "+
		"Non-trivial = the tree has a no-block call inside some block, or a sibling after a call whose callee does not consume its block; distinct by tree")

// joined lists the components a join / fnseq call is given.
func (it Item) joined() []int {
	switch it.Arity {
	case -1:
		return nil
	case 1:
		return []int{it.A}
	case 3:
		return []int{it.A, it.B, it.A}
	}
	return []int{it.A, it.B}
}

// ---------- reference interpreter ----------

type closure struct {
	items []Item
	scope *scope
}

type scope struct {
	children *closure
}

type interp struct {
	t    Tree
	once map[string]bool
	sb   strings.Builder
	fuel int
}

func (in *interp) renderClosure(c *closure) {
	if c != nil {
		in.eval(c.items, c.scope)
	}
}

func (in *interp) eval(items []Item, sc *scope) {
	for _, it := range items {
		in.fuel--
		if in.fuel < 0 {
			return
		}
		switch it.Kind {
		case "text":
			in.sb.WriteString("<b>" + it.Text + "</b>")
		case "slot":
			in.renderClosure(sc.children)
		case "call":
			var blk *closure
			if it.HasBlk {
				blk = &closure{items: it.Block, scope: sc}
			}
			switch it.Callee {
			case "gen":
				in.eval(in.t.Comps[it.A], &scope{children: blk})
			case "once":
				k := fmt.Sprintf("h%d", it.A)
				if !in.once[k] {
					in.once[k] = true
					in.renderClosure(blk)
				}
			case "oncefixed":
				k := fmt.Sprintf("hf%d", it.A)
				if !in.once[k] {
					in.once[k] = true
					in.sb.WriteString(fmt.Sprintf("<b>fixed%d</b>", it.A))
				}
			case "flush", "fnkids", "fnplainflush":
				// fnplainflush: templ.Flush() rendered by a hand-written layer straight into a writer
				// that has no Flush method - the block is rendered all the same, by nobody else
				in.renderClosure(blk)
			case "fncapture":
				// renders its children into a buffer of its own and writes the result inside <u>
				in.sb.WriteString("<u>")
				in.renderClosure(blk)
				in.sb.WriteString("</u>")
			case "raw":
				in.sb.WriteString("<b>" + it.Text + "</b>")
			case "fn":
				in.sb.WriteString("<b>" + it.Text + "</b>")
			case "join":
				// templ.Join has no children slot: a block given to it is given to nobody, and
				// the joined components were called without a block - however many there are.
				for _, c := range it.joined() {
					in.eval(in.t.Comps[c], &scope{})
				}
			case "fnwithhold":
				// a hand-written layer that is given a block and renders its component with
				// templ.WithChildren(ctx, nil): the component is called without children
				in.eval(in.t.Comps[it.A], &scope{})
			case "fnseq":
				// a hand-written layer that renders its components in turn with the context it was
				// rendered with: that is Go's way of calling the first one with the layer's own
				// block (WithChildren + Render); the others follow a call and were given nothing.
				for i, c := range it.joined() {
					if i == 0 {
						in.eval(in.t.Comps[c], &scope{children: blk})
					} else {
						in.eval(in.t.Comps[c], &scope{})
					}
				}
			}
		}
	}
}

func (t Tree) expected() string {
	in := &interp{t: t, once: map[string]bool{}, fuel: 100000}
	in.eval(t.Root, &scope{})
	return in.sb.String()
}

// ---------- printer ----------

func (t Tree) source(prefix string) string {
	var sb strings.Builder
	handles := map[string]bool{}
	var collect func(items []Item)
	collect = func(items []Item) {
		for _, it := range items {
			if it.Kind == "call" {
				switch it.Callee {
				case "once":
					handles[fmt.Sprintf("%sh%d", prefix, it.A)] = false
				case "oncefixed":
					handles[fmt.Sprintf("%shf%d", prefix, it.A)] = true
				}
				collect(it.Block)
			}
		}
	}
	collect(t.Root)
	for _, c := range t.Comps {
		collect(c)
	}
	for i := 0; i < 4; i++ {
		if fixed, ok := handles[fmt.Sprintf("%sh%d", prefix, i)]; ok && !fixed {
			fmt.Fprintf(&sb, "var %sh%d = templ.NewOnceHandle()\n\n", prefix, i)
		}
		if _, ok := handles[fmt.Sprintf("%shf%d", prefix, i)]; ok {
			fmt.Fprintf(&sb, "var %shf%d = templ.NewOnceHandle(templ.WithComponent(fnText(\"fixed%d\")))\n\n", prefix, i, i)
		}
	}
	var body func(items []Item, indent string)
	body = func(items []Item, indent string) {
		for _, it := range items {
			switch it.Kind {
			case "text":
				fmt.Fprintf(&sb, "%s<b>%s</b>\n", indent, it.Text)
			case "slot":
				fmt.Fprintf(&sb, "%s{ children... }\n", indent)
			case "call":
				var expr string
				switch it.Callee {
				case "gen":
					expr = fmt.Sprintf("%sC%d()", prefix, it.A)
				case "once":
					expr = fmt.Sprintf("%sh%d.Once()", prefix, it.A)
				case "oncefixed":
					expr = fmt.Sprintf("%shf%d.Once()", prefix, it.A)
				case "flush":
					expr = "templ.Flush()"
				case "raw":
					expr = fmt.Sprintf("templ.Raw(\"<b>%s</b>\")", it.Text)
				case "fn":
					expr = fmt.Sprintf("fnText(%q)", it.Text)
				case "fnkids":
					expr = "fnKids()"
				case "fnplainflush":
					expr = "fnPlain(templ.Flush())"
				case "fncapture":
					expr = "fnCapture()"
				case "fnwithhold":
					expr = fmt.Sprintf("fnWithhold(%sC%d())", prefix, it.A)
				case "join", "fnseq":
					var args []string
					for _, c := range it.joined() {
						args = append(args, fmt.Sprintf("%sC%d()", prefix, c))
					}
					fn := "templ.Join"
					if it.Callee == "fnseq" {
						fn = "fnSeq"
					}
					expr = fn + "(" + strings.Join(args, ", ") + ")"
				}
				if it.HasBlk {
					fmt.Fprintf(&sb, "%s@%s {\n", indent, expr)
					body(it.Block, indent+"\t")
					fmt.Fprintf(&sb, "%s}\n", indent)
				} else {
					fmt.Fprintf(&sb, "%s@%s\n", indent, expr)
				}
			}
		}
	}
	for i, c := range t.Comps {
		fmt.Fprintf(&sb, "templ %sC%d() {\n", prefix, i)
		body(c, "\t")
		sb.WriteString("}\n\n")
	}
	fmt.Fprintf(&sb, "templ %sRoot() {\n", prefix)
	body(t.Root, "\t")
	sb.WriteString("}\n\n")
	return sb.String()
}

const helpers = `package main

import (
	"bytes"
	"context"
	"encoding/json"
	"fmt"
	"errors"
	"io"
	"net/http/httptest"
	"os"

	"github.com/a-h/templ"
)

// fnAbandon is given a block and fails without ever looking at it: the render is abandoned
// while the block is still where the call site put it.
func fnAbandon() templ.Component {
	return templ.ComponentFunc(func(ctx context.Context, w io.Writer) error {
		return errors.New("abandoned deliberately")
	})
}

func fnText(s string) templ.Component {
	return templ.ComponentFunc(func(ctx context.Context, w io.Writer) error {
		_, err := io.WriteString(w, "<b>"+s+"</b>")
		return err
	})
}

// fnKids is a hand-written component that places the children it was given, following the
// documented pattern for code components (GetChildren, then ClearChildren).
func fnKids() templ.Component {
	return templ.ComponentFunc(func(ctx context.Context, w io.Writer) error {
		children := templ.GetChildren(ctx)
		ctx = templ.ClearChildren(ctx)
		return children.Render(ctx, w)
	})
}

// fnSeq is a hand-written layer that hands the context it was rendered with to two components in
// turn (what templ.Join does, without knowing about children).
func fnSeq(cs ...templ.Component) templ.Component {
	return templ.ComponentFunc(func(ctx context.Context, w io.Writer) error {
		for _, c := range cs {
			if err := c.Render(ctx, w); err != nil {
				return err
			}
		}
		return nil
	})
}

// fnPlain renders c, with the context (and so the block) the layer itself was given, into a writer
// that offers nothing but Write: no Flush method, not templ's buffer.
func fnPlain(c templ.Component) templ.Component {
	return templ.ComponentFunc(func(ctx context.Context, w io.Writer) error {
		return c.Render(ctx, struct{ io.Writer }{w})
	})
}

// fnWithhold renders c without children, whatever block the layer itself was given.
func fnWithhold(c templ.Component) templ.Component {
	return templ.ComponentFunc(func(ctx context.Context, w io.Writer) error {
		return c.Render(templ.WithChildren(ctx, nil), w)
	})
}

// fnCapture is a hand-written component that renders the children it was given into a buffer of
// its own (to post-process them) and then writes the result between <u> tags.
func fnCapture() templ.Component {
	return templ.ComponentFunc(func(ctx context.Context, w io.Writer) error {
		children := templ.GetChildren(ctx)
		ctx = templ.ClearChildren(ctx)
		var captured bytes.Buffer
		if err := children.Render(ctx, &captured); err != nil {
			return err
		}
		_, err := io.WriteString(w, "<u>"+captured.String()+"</u>")
		return err
	})
}

type result struct {
	I   int    ` + "`json:\"i\"`" + `
	Out string ` + "`json:\"out\"`" + `
	Err string ` + "`json:\"err\"`" + `
	// Served: the same tree in front of a children slot that gets no block, served by templ.Handler
	// right after a request whose render was abandoned with a block still pending.
	Served       string ` + "`json:\"served\"`" + `
	ServedStatus int    ` + "`json:\"served_status\"`" + `
}

func main() {
	enc := json.NewEncoder(os.Stdout)
	for i, c := range roots {
		var buf bytes.Buffer
		r := result{I: i}
		func() {
			defer func() {
				if x := recover(); x != nil {
					r.Err = fmt.Sprintf("panic: %v", x)
				}
			}()
			if err := c().Render(context.Background(), &buf); err != nil {
				r.Err = err.Error()
			}
		}()
		r.Out = buf.String()
		func() {
			defer func() {
				if x := recover(); x != nil {
					r.Served = fmt.Sprintf("panic: %v", x)
				}
			}()
			templ.Handler(helperAbandoned()).ServeHTTP(httptest.NewRecorder(), httptest.NewRequest("GET", "/a", nil))
			rr := httptest.NewRecorder()
			templ.Handler(helperSlotRoot(c())).ServeHTTP(rr, httptest.NewRequest("GET", "/b", nil))
			r.Served, r.ServedStatus = rr.Body.String(), rr.Code
		}()
		_ = enc.Encode(r)
	}
}
`

// helperTempl: fixed templates of every batch.
const helperTempl = `
templ helperAbandoned() {
	@fnAbandon() {
		<b>block-of-an-abandoned-render</b>
	}
}

templ helperSlotRoot(c templ.Component) {
	@c
	{ children... }
}
`

func stripWS(s string) string {
	return strings.Map(func(r rune) rune {
		if r == ' ' || r == '\n' || r == '\t' || r == '\r' {
			return -1
		}
		return r
	}, s)
}

// runBatch builds and runs the trees; returns one error per tree (nil = as expected).
func runBatch(trees []Tree) ([]error, error) {
	dir := batch.Dir()
	defer os.RemoveAll(dir)
	var src strings.Builder
	src.WriteString("package main\n\n")
	src.WriteString(helperTempl)
	var roots strings.Builder
	roots.WriteString("package main\n\nimport \"github.com/a-h/templ\"\n\nvar roots = []func() templ.Component{\n")
	for i, t := range trees {
		p := fmt.Sprintf("T%d", i)
		src.WriteString(t.source(p))
		fmt.Fprintf(&roots, "\t%sRoot,\n", p)
	}
	roots.WriteString("}\n")
	bin, err := batch.Build(dir, map[string]string{"trees.templ": src.String(), "helpers.go": helpers, "roots.go": roots.String()}, batch.Options{})
	if err != nil {
		return nil, err
	}
	out, stderr, err := batch.Run(bin, nil, nil, 60*time.Second)
	if err != nil {
		return nil, fmt.Errorf("run: %v: %s", err, stderr)
	}
	errs := make([]error, len(trees))
	dec := json.NewDecoder(strings.NewReader(string(out)))
	seen := 0
	for dec.More() {
		var r struct {
			I            int
			Out          string
			Err          string
			Served       string
			ServedStatus int `json:"served_status"`
		}
		if err := dec.Decode(&r); err != nil {
			return nil, err
		}
		seen++
		want := trees[r.I].expected()
		switch {
		case r.Err != "":
			errs[r.I] = fmt.Errorf("render failed: %s", r.Err)
		case stripWS(r.Out) != want:
			errs[r.I] = fmt.Errorf("rendered %q, the call tree denotes %q\n%s", stripWS(r.Out), want, trees[r.I].source("T"))
		case r.ServedStatus != 200 || stripWS(r.Served) != want:
			errs[r.I] = fmt.Errorf("served by templ.Handler in front of a children slot that gets no block, after a request whose render was abandoned: status %d, body %q; the call tree denotes %q\n%s", r.ServedStatus, stripWS(r.Served), want, trees[r.I].source("T"))
		}
	}
	if seen != len(trees) {
		return nil, fmt.Errorf("program reported %d of %d trees: %s", seen, len(trees), stderr)
	}
	return errs, nil
}

func decideTree(t Tree) error {
	errs, err := runBatch([]Tree{t})
	if err != nil {
		if _, ok := err.(*batch.GenError); ok {
			return fmt.Errorf("templ generate rejects a well-formed call tree: %v\n%s", err, t.source("T"))
		}
		if _, ok := err.(*batch.BuildError); ok {
			return fmt.Errorf("generated code does not compile: %v\n%s", err, t.source("T"))
		}
		panic("harness: " + err.Error())
	}
	return errs[0]
}

func init() {
	ev.RegisterReplay("c13.calltree", func(raw json.RawMessage) error {
		var t Tree
		if err := json.Unmarshal(raw, &t); err != nil {
			return err
		}
		return decideTree(t)
	})
}

// ---------- generator ----------

type genCtx struct {
	t       *rapid.T
	nComps  int
	marker  *int
	current int    // index of the component whose body is being generated (-1 = root)
	leaf    []bool // leaf[j]: component j is markers only
}

func (g genCtx) mark() string {
	*g.marker++
	return fmt.Sprintf("m%d", *g.marker)
}

func (g genCtx) items(depth int, inBlock bool) []Item {
	n := rapid.IntRange(0, 4).Draw(g.t, "n")
	if depth == 0 && n == 0 {
		n = 1
	}
	var out []Item
	for i := 0; i < n; i++ {
		k := rapid.IntRange(0, 9).Draw(g.t, "item")
		switch {
		case k <= 2 || depth >= 4:
			out = append(out, Item{Kind: "text", Text: g.mark()})
		case k == 3:
			out = append(out, Item{Kind: "slot"})
		default:
			it := Item{Kind: "call"}
			callees := []string{"gen", "gen", "gen", "once", "oncefixed", "flush", "raw", "fn", "fnkids", "join", "fnseq", "fncapture", "fnwithhold", "fnplainflush"}
			it.Callee = rapid.SampledFrom(callees).Draw(g.t, "callee")
			lo := g.current + 1
			if (it.Callee == "gen" || it.Callee == "join" || it.Callee == "fnseq" || it.Callee == "fnwithhold") && lo >= g.nComps {
				it.Callee = "fn"
			}
			switch it.Callee {
			case "gen", "fnwithhold":
				it.A = rapid.IntRange(lo, g.nComps-1).Draw(g.t, "comp")
			case "join", "fnseq":
				it.A = rapid.IntRange(lo, g.nComps-1).Draw(g.t, "compA")
				it.B = rapid.IntRange(lo, g.nComps-1).Draw(g.t, "compB")
				it.Arity = rapid.SampledFrom([]int{0, 0, 1, 1, 3, -1}).Draw(g.t, "arity")
				// the shape that matters most for a layer: a component that never touches the
				// children first, one with a slot after it
				var leaves, others []int
				for j := lo; j < g.nComps; j++ {
					if j < len(g.leaf) && g.leaf[j] {
						leaves = append(leaves, j)
					} else {
						others = append(others, j)
					}
				}
				if len(leaves) > 0 && len(others) > 0 && rapid.IntRange(0, 2).Draw(g.t, "leafFirst") > 0 {
					it.A = rapid.SampledFrom(leaves).Draw(g.t, "leafA")
					it.B = rapid.SampledFrom(others).Draw(g.t, "slotB")
					it.Arity = 0
				}
			case "once", "oncefixed":
				it.A = rapid.IntRange(0, 2).Draw(g.t, "handle")
			case "raw", "fn":
				it.Text = g.mark()
			}
			// layers that render several components are the interesting callees for a block
			if rapid.IntRange(0, 2).Draw(g.t, "block") > 0 || ((it.Callee == "fnseq" || it.Callee == "join") && rapid.IntRange(0, 3).Draw(g.t, "layerBlock") > 0) {
				it.HasBlk = true
				it.Block = g.items(depth+1, true)
				if len(it.Block) == 0 {
					it.Block = []Item{{Kind: "text", Text: g.mark()}}
				}
			}
			out = append(out, it)
			// what follows a callee that does not take its block matters: half of the time a call
			// without a block to a component that has a slot comes right after it
			if !consumes(it) || it.Callee == "once" || it.Callee == "oncefixed" {
				var slotted []int
				for j := g.current + 1; j < g.nComps; j++ {
					if j >= len(g.leaf) || !g.leaf[j] {
						slotted = append(slotted, j)
					}
				}
				if len(slotted) > 0 && rapid.Bool().Draw(g.t, "slotAfter") {
					out = append(out, Item{Kind: "call", Callee: "gen", A: rapid.SampledFrom(slotted).Draw(g.t, "slotComp")})
				}
			}
		}
	}
	return out
}

var genTree = rapid.Custom(func(t *rapid.T) Tree {
	n := rapid.IntRange(0, 5).Draw(t, "ncomps")
	marker := 0
	var tr Tree
	leaf := make([]bool, n)
	for i := range leaf {
		leaf[i] = rapid.IntRange(0, 4).Draw(t, "leaf") == 0
	}
	for i := 0; i < n; i++ {
		g := genCtx{t: t, nComps: n, marker: &marker, current: i, leaf: leaf}
		body := g.items(1, false)
		if leaf[i] {
			// a leaf: markers only - no slot, no call, nothing that touches the children
			marker++
			body = []Item{{Kind: "text", Text: fmt.Sprintf("leaf%d", marker)}}
		} else if rapid.IntRange(0, 3).Draw(t, "ensureSlot") > 0 {
			pos := rapid.IntRange(0, len(body)).Draw(t, "slotpos")
			body = append(body[:pos:pos], append([]Item{{Kind: "slot"}}, body[pos:]...)...)
		}
		tr.Comps = append(tr.Comps, body)
	}
	g := genCtx{t: t, nComps: n, marker: &marker, current: -1, leaf: leaf}
	tr.Root = g.items(0, false)
	return tr
})

func consumes(it Item) bool {
	switch it.Callee {
	case "raw", "fn", "oncefixed", "join":
		return false
	}
	return true
}

func nontrivial(t Tree) bool {
	found := false
	var walk func(items []Item, inBlock bool)
	walk = func(items []Item, inBlock bool) {
		for i, it := range items {
			if it.Kind != "call" {
				continue
			}
			if inBlock && !it.HasBlk {
				found = true
			}
			if it.HasBlk && !consumes(it) && i+1 < len(items) {
				found = true
			}
			if it.HasBlk && it.Callee == "once" && i+1 < len(items) {
				found = true
			}
			walk(it.Block, true)
		}
	}
	walk(t.Root, false)
	for _, c := range t.Comps {
		walk(c, false)
	}
	return found
}

func TestPropCallTrees(t *testing.T) {
	perBatch := ev.Pick(25, 40)
	rapid.Check(t, func(t *rapid.T) {
		trees := rapid.SliceOfN(genTree, perBatch, perBatch).Draw(t, "trees")
		for _, tr := range trees {
			rec.Eval(1)
			if nontrivial(tr) {
				rec.NonTrivial(fmt.Sprint(tr), func() any { return map[string]any{"source": tr.source("T"), "expected": tr.expected()} })
			}
		}
		errs, err := runBatch(trees)
		if err != nil {
			// find the offending tree
			for _, tr := range trees {
				if e := decideTree(tr); e != nil {
					rec.Fail(t, tr, "%v", e)
				}
			}
			panic("harness: batch failed but no single tree does: " + err.Error())
		}
		for i, e := range errs {
			if e != nil {
				if k := knownClass(trees[i], e); k != "" && ev.IsOpenFinding("C13", k) {
					rec.Excluded(k)
					continue
				}
				rec.Fail(t, trees[i], "%v", e)
			}
		}
	})
}

func knownClass(Tree, error) string { return "" }

func TestReplay(t *testing.T) {
	for _, r := range ev.RunReplays() {
		t.Logf("%+v", r)
	}
}
