package c09

import (
	"bytes"
	"encoding/json"
	"fmt"
	"io"
	"log/slog"
	"os"
	"path/filepath"
	"regexp"
	"strings"
	"testing"

	"github.com/a-h/templ/cmd/templ/fmtcmd"
	"pgregory.net/rapid"

	"verif/ev"
	"verif/tc"
	"verif/tgen"
)

// CmdCase: a file formatted in place by the `templ fmt <dir>` code path, which - unlike the stdin
// path without a file name - also tidies the import block.
type CmdCase struct {
	Source ev.QStr `json:"source"`
}

var recCmd = ev.New("C09", "c09.fmtcmd",
	"tgen programs whose import block is rewritten into generated shapes (grouped / one per line / mixed, with unused standard-library imports, the templ import itself, blank lines and comments between imports, in generated order) are written to a directory and formatted in place with fmtcmd.Run, the code path of `templ fmt <dir>` (parser write + import clean-up), twice; "+
		"oracle: the second run leaves the file byte-identical and `templ fmt -fail` on the result succeeds. Non-trivial = the first run changed the import block; distinct by source")

var discardLog = slog.New(slog.NewTextHandler(io.Discard, nil))

var importBlock = regexp.MustCompile(`(?s)import \(\n.*?\n\)\n`)

func runFmt(dir string, fail bool) error {
	return fmtcmd.Run(discardLog, strings.NewReader(""), io.Discard, fmtcmd.Arguments{Files: []string{dir}, FailIfChanged: fail, WorkerCount: 1})
}

func decideCmd(c CmdCase) (importsChanged bool, err error) {
	src := string(c.Source)
	if _, _, gerr := tc.Generate(src, "f.templ"); gerr != nil {
		return false, nil
	}
	base := os.Getenv("VERIF_SCRATCH")
	if base == "" {
		base = os.TempDir()
	}
	dir, derr := os.MkdirTemp(base, "c09fmt-")
	if derr != nil {
		panic(derr)
	}
	defer os.RemoveAll(dir)
	name := filepath.Join(dir, "f.templ")
	if err := os.WriteFile(name, []byte(src), 0o644); err != nil {
		panic(err)
	}
	if err := runFmt(dir, false); err != nil {
		return false, nil // the command rejects the file: outside the domain
	}
	first, _ := os.ReadFile(name)
	if err := runFmt(dir, false); err != nil {
		return false, fmt.Errorf("second `templ fmt` run failed on the first run's output: %v\n--- after first run:\n%s", err, first)
	}
	second, _ := os.ReadFile(name)
	importsChanged = importBlock.FindString(src) != importBlock.FindString(string(first))
	if !bytes.Equal(first, second) {
		return importsChanged, fmt.Errorf("`templ fmt` is not stable: second run differs at %s\n--- after first run:\n%s\n--- after second run:\n%s", firstDiff(string(first), string(second)), clip(string(first)), clip(string(second)))
	}
	if err := runFmt(dir, true); err != nil {
		return importsChanged, fmt.Errorf("`templ fmt -fail` reports changes right after `templ fmt`: %v", err)
	}
	return importsChanged, nil
}

func init() {
	ev.RegisterReplay("c09.fmtcmd", func(raw json.RawMessage) error {
		var c CmdCase
		if err := json.Unmarshal(raw, &c); err != nil {
			return err
		}
		_, err := decideCmd(c)
		return err
	})
}

// genImports rewrites the import block of src (if any) into a generated shape.
func genImports(t *rapid.T, src string) string {
	var needed []string
	if m := importBlock.FindString(src); m != "" {
		for _, l := range strings.Split(m, "\n") {
			l = strings.TrimSpace(l)
			if strings.HasPrefix(l, "\"") {
				needed = append(needed, l)
			}
		}
	}
	extra := rapid.SliceOfNDistinct(rapid.SampledFrom([]string{`"os"`, `"io"`, `"bytes"`, `"net/http"`, `"github.com/a-h/templ"`, `"sort"`, `"time"`, `_ "embed"`, `str "strings"`}), 0, 4, func(s string) string { return s }).Draw(t, "extra")
	all := append(append([]string{}, needed...), extra...)
	// generated order
	perm := rapid.Permutation(all).Draw(t, "order")
	if len(perm) == 0 {
		return src
	}
	var sb strings.Builder
	switch rapid.IntRange(0, 2).Draw(t, "shape") {
	case 0: // one grouped block
		sb.WriteString("import (\n")
		for i, p := range perm {
			if i > 0 && rapid.IntRange(0, 4).Draw(t, "blank") == 0 {
				sb.WriteString("\n")
			}
			sb.WriteString("\t" + p + "\n")
		}
		sb.WriteString(")\n")
	case 1: // one import per line
		for _, p := range perm {
			sb.WriteString("import " + p + "\n")
		}
	default: // a block and single lines
		k := rapid.IntRange(0, len(perm)).Draw(t, "split")
		if k > 0 {
			sb.WriteString("import (\n")
			for _, p := range perm[:k] {
				sb.WriteString("\t" + p + "\n")
			}
			sb.WriteString(")\n")
		}
		for _, p := range perm[k:] {
			sb.WriteString("\nimport " + p + "\n")
		}
	}
	if m := importBlock.FindString(src); m != "" {
		return strings.Replace(src, m, sb.String(), 1)
	}
	// no import block in the source: put one after the package clause
	return strings.Replace(src, "package main\n\n", "package main\n\n"+sb.String()+"\n", 1)
}

func TestPropFmtCmd(t *testing.T) {
	o := tgen.DefaultOptions
	o.MaxTemplates = 2
	g := tgen.GenFile(o)
	rapid.Check(t, func(t *rapid.T) {
		src, _ := tgen.Print(g.Draw(t, "file"), "P")
		src = genImports(t, src)
		c := CmdCase{Source: ev.QStr(src)}
		recCmd.Eval(1)
		changed, err := decideCmd(c)
		if changed {
			recCmd.NonTrivial(src, func() any { return clip(src) })
		}
		if err != nil {
			if k := knownCmdClass(src, err); k != "" && ev.IsOpenFinding("C09", k) {
				recCmd.Excluded(k)
				return
			}
			recCmd.Fail(t, c, "%v\n--- original:\n%s", err, src)
		}
	})
}

func knownCmdClass(src string, err error) string { return "" }
