package c09

import (
	"encoding/json"
	"fmt"
	"os"
	"strings"
	"testing"

	"pgregory.net/rapid"

	"verif/corpus"
	"verif/ev"
	"verif/oneline"
	"verif/tc"
	"verif/tgen"
)

func TestMain(m *testing.M) {
	code := m.Run()
	ev.FlushAll()
	os.Exit(code)
}

type Case struct {
	Source ev.QStr `json:"source"`
}

var rec = ev.New("C09", "c09.format-idempotent",
	"the same population of spellings as c08 (tgen programs with varied layout, repository .templ files and formatter test inputs, and whitespace-mutated variants of both that templ generate still accepts), biased to single-line elements containing comments, calls, children slots, script/style and control flow, and expressions with padding: "+
		"fmt(fmt(x)) must equal fmt(x) byte for byte, and fmt(x) must parse. Non-trivial = fmt(x) != x; distinct by source")

func decide(src string) (changed bool, err error) {
	if _, _, gerr := tc.Generate(src, "f.templ"); gerr != nil {
		return false, nil // not accepted: outside the domain
	}
	f1, ferr := tc.Format(src)
	if ferr != nil {
		return false, fmt.Errorf("an accepted file cannot be formatted: %v", ferr)
	}
	changed = f1 != src
	f2, ferr := tc.Format(f1)
	if ferr != nil {
		return changed, fmt.Errorf("the formatter's own output does not parse: %v\n--- formatted once:\n%s", ferr, f1)
	}
	if f2 != f1 {
		return changed, fmt.Errorf("formatting is not stable: second pass differs at %s\n--- formatted once:\n%s\n--- formatted twice:\n%s", firstDiff(f1, f2), f1, f2)
	}
	return changed, nil
}

func firstDiff(a, b string) string {
	la, lb := strings.Split(a, "\n"), strings.Split(b, "\n")
	for i := 0; i < len(la) && i < len(lb); i++ {
		if la[i] != lb[i] {
			return fmt.Sprintf("line %d: %q vs %q", i+1, la[i], lb[i])
		}
	}
	return fmt.Sprintf("line count %d vs %d", len(la), len(lb))
}

func init() {
	ev.RegisterReplay("c09.format-idempotent", func(raw json.RawMessage) error {
		var c Case
		if err := json.Unmarshal(raw, &c); err != nil {
			return err
		}
		_, err := decide(string(c.Source))
		return err
	})
}

// knownClass maps a failing source to a listed finding class.
func knownClass(src string, err error) string { return "" }

func check(t ev.Failer, src, name string) {
	rec.Eval(1)
	changed, err := decide(src)
	if changed {
		rec.NonTrivial(src, func() any { return clip(src) })
	}
	if err != nil {
		if k := knownClass(src, err); k != "" && ev.IsOpenFinding("C09", k) {
			rec.Excluded(k)
			return
		}
		rec.Fail(t, Case{Source: ev.QStr(src)}, "%s%v\n--- original:\n%s", name, err, src)
	}
}

func clip(s string) string {
	if len(s) > 600 {
		return s[:600] + "..."
	}
	return s
}

// crlf is the same file saved with Windows line endings.
func crlf(src string) string {
	return strings.ReplaceAll(strings.ReplaceAll(src, "\r\n", "\n"), "\n", "\r\n")
}

func TestPropSeeds(t *testing.T) {
	for _, sd := range corpus.Seeds() {
		check(t, sd.Text, sd.Name+": ")
		check(t, crlf(sd.Text), sd.Name+" (CRLF): ")
	}
}

// TestPropOneLiners enumerates the one-line family completely (package oneline).
func TestPropOneLiners(t *testing.T) {
	shard, shards := ev.Shard()
	n := 0
	oneline.Each(shard, shards, func(name, src string) {
		n++
		check(t, src, name+": ")
	})
	rec.ClassN("one-line family (enumerated completely)", n)
}

// TestPropDeep: every layout nested 0..24 levels deep in each kind of block (package oneline).
func TestPropDeep(t *testing.T) {
	shard, shards := ev.Shard()
	n := 0
	oneline.EachDeep(shard, shards, 24, func(name, src string) {
		n++
		check(t, src, "nested "+name+": ")
	})
	rec.ClassN("layouts nested 0..24 levels deep (enumerated completely)", n)
}

// TestPropLayouts enumerates the layout family completely: expressions, parameter lists, statement
// heads and attribute lists with every placement of blanks and line breaks between their tokens.
func TestPropLayouts(t *testing.T) {
	shard, shards := ev.Shard()
	gaps := oneline.QuickGaps
	if ev.Thorough() {
		gaps = oneline.ThoroughGaps
	}
	n := 0
	oneline.EachLayout(shard, shards, gaps, func(name, src string) {
		n++
		check(t, src, name+": ")
	})
	rec.ClassN("layout family (enumerated completely)", n)
}

func TestPropGenerated(t *testing.T) {
	g := tgen.GenFile(tgen.DefaultOptions)
	rapid.Check(t, func(t *rapid.T) {
		f := g.Draw(t, "file")
		src, _ := tgen.Print(f, "P")
		if rapid.IntRange(0, 3).Draw(t, "crlf") == 0 {
			src = crlf(src)
		}
		check(t, src, "")
	})
}

// wsMutate rewrites 1..5 whitespace runs (or token boundaries) of an accepted source: the result,
// if still accepted, is another concrete spelling whose own meaning formatting must preserve.
func wsMutate(t *rapid.T, src string) string {
	// only spellings of templates are varied, not of the package clause / imports in front of them
	start := strings.Index(src, "templ ")
	if start < 0 {
		return src
	}
	if rapid.IntRange(0, 5).Draw(t, "topComment") == 0 {
		// a top-level // comment line gets indented (gofmt will take the indentation away again)
		lines := strings.Split(src, "\n")
		var cands, templs []int
		for i, l := range lines {
			if strings.HasPrefix(l, "//") {
				cands = append(cands, i)
			}
			if strings.HasPrefix(l, "templ ") && i > 0 {
				templs = append(templs, i)
			}
		}
		if len(templs) > 0 && rapid.Bool().Draw(t, "insertComment") {
			// ... or a new, indented comment line is put directly in front of a template
			i := templs[rapid.IntRange(0, len(templs)-1).Draw(t, "beforeTempl")]
			ind := rapid.SampledFrom([]string{"\t", "  ", ""}).Draw(t, "newCommentIndent")
			lines = append(lines[:i:i], append([]string{ind + "// about the template below"}, lines[i:]...)...)
			return strings.Join(lines, "\n")
		}
		if len(cands) > 0 {
			i := cands[rapid.IntRange(0, len(cands)-1).Draw(t, "topCommentLine")]
			lines[i] = rapid.SampledFrom([]string{"\t", "  ", "\t\t"}).Draw(t, "topCommentIndent") + lines[i]
			return strings.Join(lines, "\n")
		}
	}
	head, src := src[:start], src[start:]
	defer func() {}()
	out := wsMutateBody(t, src)
	return head + out
}

func wsMutateBody(t *rapid.T, src string) string {
	for i, n := 0, rapid.IntRange(1, 5).Draw(t, "nmut"); i < n; i++ {
		// find whitespace runs
		type run struct{ a, b int }
		var runs []run
		for j := 0; j < len(src); {
			if src[j] == ' ' || src[j] == '\t' || src[j] == '\n' {
				k := j
				for k < len(src) && (src[k] == ' ' || src[k] == '\t' || src[k] == '\n') {
					k++
				}
				// "} else" must keep its line start: the else parser does not accept padding in front of
				// the brace, and a file where it silently stops being an else is not a spelling of the same template
				if !strings.HasPrefix(src[k:], "} else") && !strings.HasPrefix(src[k:], "}else") {
					runs = append(runs, run{j, k})
				}
				j = k
			} else {
				j++
			}
		}
		repl := rapid.SampledFrom([]string{"", " ", "\n", "\n\n", "\n\t\t", "  ", "\t"}).Draw(t, "repl")
		if len(runs) > 2 && rapid.IntRange(0, 5).Draw(t, "join") == 0 {
			// several consecutive runs collapse at once: nested elements, calls and expressions end
			// up on one line
			first := rapid.IntRange(0, len(runs)-2).Draw(t, "joinFrom")
			last := min(len(runs)-1, first+rapid.IntRange(1, 5).Draw(t, "joinLen"))
			sep := rapid.SampledFrom([]string{"", "", " "}).Draw(t, "joinSep")
			for k := last; k >= first; k-- {
				src = src[:runs[k].a] + sep + src[runs[k].b:]
			}
			continue
		}
		if len(runs) > 0 && rapid.IntRange(0, 3).Draw(t, "where") > 0 {
			r := runs[rapid.IntRange(0, len(runs)-1).Draw(t, "run")]
			src = src[:r.a] + repl + src[r.b:]
		} else {
			// insert whitespace at a boundary next to markup punctuation
			var cands []int
			for j := 1; j < len(src); j++ {
				if strings.HasPrefix(src[j:], "} else") || strings.HasPrefix(src[j:], "}else") {
					continue
				}
				if strings.ContainsRune("<>{}", rune(src[j])) || strings.ContainsRune("<>{}", rune(src[j-1])) {
					cands = append(cands, j)
				}
			}
			if len(cands) > 0 {
				pos := cands[rapid.IntRange(0, len(cands)-1).Draw(t, "pos")]
				src = src[:pos] + repl + src[pos:]
			}
		}
	}
	return src
}

func TestPropWhitespaceMutations(t *testing.T) {
	g := tgen.GenFile(tgen.DefaultOptions)
	seeds := corpus.Seeds()
	rapid.Check(t, func(t *rapid.T) {
		var src string
		if rapid.Bool().Draw(t, "fromSeed") {
			src = seeds[rapid.IntRange(0, len(seeds)-1).Draw(t, "seed")].Text
		} else {
			src, _ = tgen.Print(g.Draw(t, "file"), "P")
		}
		src = wsMutate(t, src)
		if _, _, err := tc.Generate(src, "f.templ"); err != nil {
			rec.Class("mutant-not-accepted")
			return
		}
		rec.Class("mutant-accepted")
		check(t, src, "")
	})
}

func TestReplay(t *testing.T) {
	for _, r := range ev.RunReplays() {
		t.Logf("%+v", r)
	}
}

var _ = strings.Contains
