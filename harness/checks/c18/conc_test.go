package c18

import (
	"bufio"
	"context"
	"encoding/json"
	"errors"
	"fmt"
	"hash/fnv"
	"io"
	"net"
	"sort"
	"strconv"
	"strings"
	"sync"
	"testing"
	"time"

	"github.com/a-h/templ/lsp/jsonrpc2"
	"pgregory.net/rapid"

	"verif/ev"
)

type Op struct {
	Kind     string `json:"kind"`      // call | notify
	Policy   string `json:"policy"`    // answer | error | never (calls)
	CancelUs int    `json:"cancel_us"` // <0: never cancelled; otherwise the caller's context is cancelled this long after the call starts
	Pad      int    `json:"pad"`       // payload padding bytes
}

type Plan struct {
	Callers [][]Op `json:"callers"`
	Batch   int    `json:"batch"` // the peer answers when this many calls are waiting (or after a short idle time)
	Seed    uint32 `json:"seed"`  // permutes the answers inside a batch
	Procs   int    `json:"procs"`
	// PeerCalls: while the callers run, the peer sends this many calls of its own to the Conn,
	// whose handler answers them (so replies and the Conn's own calls share the write side).
	PeerCalls int `json:"peer_calls,omitempty"`
}

var recConc = ev.New("C18", "c18.concurrent",
	"plans of 2..8 concurrent callers x 1..4 operations (calls answered / answered with an error / never answered, notifications; payloads 0..20KB; cancellations at generated delays) on one Conn over a synchronous net.Pipe against a scripted peer with its own frame parser that answers in generated batches and permutations and meanwhile sends 0-40 calls of its own, which the Conn's (asynchronous) handler answers, then sends late duplicates and an unknown id; run under the race detector. "+
		"Oracle: the peer never sees a malformed or interleaved frame; every Call returns the result/error carrying its own token, or its own context's error if (and only if) that context was cancelled; notifications all arrive; every peer call gets exactly one reply; the connection still works afterwards and shuts down. "+
		"Non-trivial = >=4 calls in flight answered out of order (batch>=2) with at least one cancellation or never-answered call; distinct by plan")

type wireMsg struct {
	JSONRPC string           `json:"jsonrpc"`
	ID      *json.RawMessage `json:"id,omitempty"`
	Method  string           `json:"method,omitempty"`
	Params  *struct {
		Token string `json:"token"`
		Pad   string `json:"pad"`
	} `json:"params,omitempty"`
}

func readFrame(r *bufio.Reader) ([]byte, error) {
	n := -1
	for {
		line, err := r.ReadString('\n')
		if err != nil {
			return nil, err
		}
		if !strings.HasSuffix(line, "\r\n") {
			return nil, fmt.Errorf("header line %q does not end in CRLF", line)
		}
		line = strings.TrimSuffix(line, "\r\n")
		if line == "" {
			break
		}
		k, v, ok := strings.Cut(line, ": ")
		if !ok {
			return nil, fmt.Errorf("malformed header line %q (interleaved frames?)", clip(line))
		}
		if k == "Content-Length" {
			x, err := strconv.Atoi(v)
			if err != nil {
				return nil, fmt.Errorf("malformed length %q", v)
			}
			n = x
		}
	}
	if n < 0 {
		return nil, errors.New("frame without Content-Length")
	}
	b := make([]byte, n)
	if _, err := io.ReadFull(r, b); err != nil {
		return nil, err
	}
	return b, nil
}

func writeFrame(w io.Writer, body string) error {
	_, err := io.WriteString(w, fmt.Sprintf("Content-Length: %d\r\n\r\n%s", len(body), body))
	return err
}

type pendingCall struct {
	id    string
	token string
	pol   string
}

func prio(seed uint32, token string) uint32 {
	h := fnv.New32a()
	fmt.Fprintf(h, "%d|%s", seed, token)
	return h.Sum32()
}

func decidePlan(p Plan) error {
	c1, c2 := net.Pipe()
	defer c1.Close()
	defer c2.Close()
	conn := jsonrpc2.NewConn(jsonrpc2.NewStream(c1))
	ctx, cancelAll := context.WithCancel(context.Background())
	defer cancelAll()
	conn.Go(ctx, jsonrpc2.AsyncHandler(func(ctx context.Context, reply jsonrpc2.Replier, req jsonrpc2.Request) error {
		// echo the parameters back: the reply to a peer call is a frame like any other
		var params json.RawMessage
		if req.Params() != nil {
			params = append(params, req.Params()...)
		}
		return reply(ctx, params, nil)
	}))

	policy := map[string]string{"after": "answer"}
	nCalls, nNotifs := 0, 0
	for i, ops := range p.Callers {
		for j, op := range ops {
			tok := fmt.Sprintf("c%d-%d", i, j)
			if op.Kind == "call" {
				policy[tok] = op.Policy
				nCalls++
			} else {
				nNotifs++
			}
		}
	}

	var mu sync.Mutex
	var peerErr error
	seenNotif := map[string]int{}
	seenCall := map[string]int{}
	peerReplies := map[string]int{}
	answered := []string{}
	queue := make(chan pendingCall, 1024)
	peerDone := make(chan struct{})
	finalSeen := make(chan struct{})
	setErr := func(err error) {
		mu.Lock()
		if peerErr == nil {
			peerErr = err
		}
		mu.Unlock()
	}
	// peer reader
	go func() {
		defer close(peerDone)
		br := bufio.NewReader(c2)
		for {
			body, err := readFrame(br)
			if err != nil {
				if !errors.Is(err, io.EOF) && !errors.Is(err, io.ErrClosedPipe) {
					setErr(fmt.Errorf("peer cannot parse the byte stream: %v", err))
				}
				return
			}
			var m wireMsg
			if err := json.Unmarshal(body, &m); err != nil || m.JSONRPC != "2.0" {
				setErr(fmt.Errorf("peer received a frame that is not a JSON-RPC message: %q", clip(string(body))))
				return
			}
			if m.Method == "final" {
				close(finalSeen)
				continue
			}
			if m.Method == "" && m.ID != nil {
				// a reply to one of the peer's own calls
				mu.Lock()
				peerReplies[string(*m.ID)]++
				mu.Unlock()
				continue
			}
			if m.Params == nil {
				continue // reply to nothing
			}
			mu.Lock()
			if m.ID == nil {
				seenNotif[m.Params.Token]++
			} else {
				seenCall[m.Params.Token]++
			}
			mu.Unlock()
			if m.ID != nil {
				queue <- pendingCall{id: string(*m.ID), token: m.Params.Token, pol: policy[m.Params.Token]}
			}
		}
	}()
	// peer responder
	var wmu sync.Mutex
	respond := func(pc pendingCall) {
		var body string
		switch pc.pol {
		case "answer":
			body = fmt.Sprintf(`{"jsonrpc":"2.0","id":%s,"result":{"token":%q}}`, pc.id, pc.token)
		case "error":
			body = fmt.Sprintf(`{"jsonrpc":"2.0","id":%s,"error":{"code":-32000,"message":%q}}`, pc.id, pc.token)
		default:
			return
		}
		wmu.Lock()
		_ = writeFrame(c2, body)
		wmu.Unlock()
		mu.Lock()
		answered = append(answered, pc.id)
		mu.Unlock()
	}
	stopResp := make(chan struct{})
	respDone := make(chan struct{})
	go func() {
		defer close(respDone)
		var batch []pendingCall
		flush := func() {
			sort.Slice(batch, func(a, b int) bool { return prio(p.Seed, batch[a].token) < prio(p.Seed, batch[b].token) })
			for _, pc := range batch {
				respond(pc)
			}
			batch = batch[:0]
		}
		for {
			select {
			case pc := <-queue:
				batch = append(batch, pc)
				if len(batch) >= p.Batch {
					flush()
				}
			case <-time.After(3 * time.Millisecond):
				flush()
			case <-stopResp:
				flush()
				return
			}
		}
	}()

	// the peer's own calls, written while the callers are busy
	peerCallsDone := make(chan struct{})
	go func() {
		defer close(peerCallsDone)
		for k := 0; k < p.PeerCalls; k++ {
			pad := strings.Repeat("p", int(prio(p.Seed, fmt.Sprint("pad", k))%3)*700)
			wmu.Lock()
			_ = writeFrame(c2, fmt.Sprintf(`{"jsonrpc":"2.0","id":"p%d","method":"ping","params":{"token":"p%d","pad":%q}}`, k, k, pad))
			wmu.Unlock()
			if prio(p.Seed, fmt.Sprint("gap", k))%4 == 0 {
				time.Sleep(50 * time.Microsecond)
			}
		}
	}()

	// callers
	type outcome struct {
		tok string
		err error
	}
	var wg sync.WaitGroup
	outcomes := make(chan outcome, 256)
	for i, ops := range p.Callers {
		wg.Add(1)
		go func(i int, ops []Op) {
			defer wg.Done()
			for j, op := range ops {
				tok := fmt.Sprintf("c%d-%d", i, j)
				params := map[string]string{"token": tok, "pad": strings.Repeat("é", op.Pad/2)}
				if op.Kind == "notify" {
					if err := conn.Notify(ctx, "note", params); err != nil {
						outcomes <- outcome{tok, fmt.Errorf("Notify: %v", err)}
					}
					continue
				}
				cctx, cancel := context.WithCancel(ctx)
				if op.CancelUs >= 0 {
					time.AfterFunc(time.Duration(op.CancelUs)*time.Microsecond, cancel)
				}
				var res struct {
					Token string `json:"token"`
				}
				_, err := conn.Call(cctx, "work", params, &res)
				cancelled := cctx.Err() != nil
				cancel()
				switch {
				case err == nil:
					if op.Policy != "answer" {
						outcomes <- outcome{tok, fmt.Errorf("Call returned success although the peer's policy was %q", op.Policy)}
					} else if res.Token != tok {
						outcomes <- outcome{tok, fmt.Errorf("Call for %s returned the result of %q", tok, res.Token)}
					}
				case errors.Is(err, context.Canceled):
					if op.CancelUs < 0 || !cancelled {
						outcomes <- outcome{tok, fmt.Errorf("Call returned %v although its context was not cancelled", err)}
					}
				default:
					var we *jsonrpc2.Error
					if op.Policy == "error" && errors.As(err, &we) && we.Message == tok {
						break
					}
					outcomes <- outcome{tok, fmt.Errorf("Call returned unexpected error %v (policy %s)", err, op.Policy)}
				}
			}
		}(i, ops)
	}
	finished := make(chan struct{})
	go func() { wg.Wait(); close(finished) }()
	select {
	case <-finished:
	case <-time.After(30 * time.Second):
		return errors.New("callers did not finish within 30s (a call neither got its response nor honoured its cancellation)")
	}
	<-peerCallsDone
	close(stopResp)
	<-respDone
	close(outcomes)
	for o := range outcomes {
		return fmt.Errorf("%s: %v", o.tok, o.err)
	}
	// late duplicates and an unknown id must be ignored
	mu.Lock()
	dups := append([]string(nil), answered...)
	mu.Unlock()
	for _, id := range dups {
		wmu.Lock()
		_ = writeFrame(c2, fmt.Sprintf(`{"jsonrpc":"2.0","id":%s,"result":{"token":"late"}}`, id))
		wmu.Unlock()
	}
	wmu.Lock()
	_ = writeFrame(c2, `{"jsonrpc":"2.0","id":987654,"result":null}`)
	wmu.Unlock()
	// the connection still works: one more call and the final notification
	{
		go func() {
			for {
				select {
				case pc := <-queue:
					respond(pc)
					if pc.token == "after" {
						return
					}
				case <-time.After(10 * time.Second):
					return
				}
			}
		}()
		cctx, cancel := context.WithTimeout(ctx, 10*time.Second)
		var res struct {
			Token string `json:"token"`
		}
		_, err := conn.Call(cctx, "work", map[string]string{"token": "after"}, &res)
		cancel()
		if err != nil || res.Token != "after" {
			return fmt.Errorf("after the plan (late duplicates sent), a fresh Call returned token %q err %v", res.Token, err)
		}
	}
	if err := conn.Notify(ctx, "final", nil); err != nil {
		return fmt.Errorf("final Notify: %v", err)
	}
	select {
	case <-finalSeen:
	case <-time.After(10 * time.Second):
		mu.Lock()
		e := peerErr
		mu.Unlock()
		if e != nil {
			return e
		}
		return errors.New("the peer never received the final notification")
	}
	// the handler answers the peer's calls asynchronously: wait for those replies before closing
	// (a reply that is still being produced when Close is called is not promised to anybody)
	for deadline := time.Now().Add(10 * time.Second); ; time.Sleep(time.Millisecond) {
		mu.Lock()
		n := len(peerReplies)
		mu.Unlock()
		if n >= p.PeerCalls || time.Now().After(deadline) {
			break
		}
	}
	_ = conn.Close()
	select {
	case <-conn.Done():
	case <-time.After(10 * time.Second):
		return errors.New("connection did not shut down within 10s of Close")
	}
	c2.Close()
	<-peerDone
	mu.Lock()
	defer mu.Unlock()
	if r := ev.RaceCheck(); r != "" {
		return fmt.Errorf("the race detector reported a data race while this plan ran:\n%s", r)
	}
	if peerErr != nil {
		return peerErr
	}
	for k := 0; k < p.PeerCalls; k++ {
		if n := peerReplies[fmt.Sprintf(`"p%d"`, k)]; n != 1 {
			return fmt.Errorf("the peer's own call p%d got %d replies", k, n)
		}
	}
	for i, ops := range p.Callers {
		for j, op := range ops {
			tok := fmt.Sprintf("c%d-%d", i, j)
			if op.Kind == "notify" && seenNotif[tok] != 1 {
				return fmt.Errorf("notification %s arrived %d times", tok, seenNotif[tok])
			}
			if op.Kind == "call" && seenCall[tok] > 1 {
				return fmt.Errorf("call %s arrived %d times", tok, seenCall[tok])
			}
			if op.Kind == "call" && op.CancelUs < 0 && seenCall[tok] != 1 {
				return fmt.Errorf("call %s arrived %d times", tok, seenCall[tok])
			}
		}
	}
	return nil
}

var genOp = rapid.Custom(func(t *rapid.T) Op {
	op := Op{Kind: "call", CancelUs: -1, Pad: rapid.SampledFrom([]int{0, 0, 10, 200, 5000, 20000}).Draw(t, "pad")}
	switch rapid.IntRange(0, 9).Draw(t, "kind") {
	case 0, 1:
		op.Kind = "notify"
	case 2:
		op.Policy = "error"
	case 3:
		op.Policy = "never"
		op.CancelUs = rapid.SampledFrom([]int{0, 50, 500, 3000}).Draw(t, "cancel")
	case 4:
		op.Policy = "answer"
		op.CancelUs = rapid.SampledFrom([]int{0, 20, 200, 2000, 6000}).Draw(t, "cancel")
	default:
		op.Policy = "answer"
	}
	return op
})

func TestPropConcurrent(t *testing.T) {
	rapid.Check(t, func(t *rapid.T) {
		p := Plan{
			Callers: rapid.SliceOfN(rapid.SliceOfN(genOp, 1, 4), 2, 8).Draw(t, "callers"),
			Batch:   rapid.IntRange(1, 6).Draw(t, "batch"),
			Seed:    rapid.Uint32().Draw(t, "seed"),
		}
		if rapid.Bool().Draw(t, "withPeerCalls") {
			p.PeerCalls = rapid.SampledFrom([]int{1, 5, 20, 40}).Draw(t, "peerCalls")
			recConc.Class("the peer calls the Conn too")
		}
		recConc.Eval(1)
		calls, special := 0, 0
		for _, ops := range p.Callers {
			for _, op := range ops {
				if op.Kind == "call" {
					calls++
					if op.CancelUs >= 0 {
						special++
					}
				}
			}
		}
		if calls >= 4 && p.Batch >= 2 && special >= 1 {
			recConc.NonTrivial(fmt.Sprint(p), func() any { return p })
		}
		if err := decidePlan(p); err != nil {
			recConc.Fail(t, p, "%v", err)
		}
	})
}

var _ = ev.Tier
