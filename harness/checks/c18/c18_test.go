package c18

import (
	"bytes"
	"context"
	"encoding/json"
	"errors"
	"fmt"
	"io"
	"os"
	"reflect"
	"strconv"
	"strings"
	"testing"
	"time"

	"github.com/a-h/templ/lsp/jsonrpc2"
	"pgregory.net/rapid"

	"verif/ev"
)

func TestMain(m *testing.M) {
	code := m.Run()
	ev.FlushAll()
	os.Exit(code)
}

// ---------- messages ----------

// Msg is a harness-side description of one JSON-RPC message.
type Msg struct {
	Kind    string `json:"kind"` // call | notify | result | error
	IDNum   int32  `json:"id_num,omitempty"`
	IDStr   string `json:"id_str,omitempty"` // non-empty: string id
	Method  string `json:"method,omitempty"`
	Payload string `json:"payload"` // JSON text of params / result
	ErrCode int32  `json:"err_code,omitempty"`
	ErrMsg  string `json:"err_msg,omitempty"`
}

func (m Msg) id() jsonrpc2.ID {
	if m.IDStr != "" {
		return jsonrpc2.NewStringID(m.IDStr)
	}
	return jsonrpc2.NewNumberID(m.IDNum)
}

func (m Msg) build() (jsonrpc2.Message, error) {
	p := json.RawMessage(m.Payload)
	switch m.Kind {
	case "call":
		return jsonrpc2.NewCall(m.id(), m.Method, p)
	case "notify":
		return jsonrpc2.NewNotification(m.Method, p)
	case "result":
		return jsonrpc2.NewResponse(m.id(), p, nil)
	default:
		return jsonrpc2.NewResponse(m.id(), nil, &jsonrpc2.Error{Code: jsonrpc2.Code(m.ErrCode), Message: m.ErrMsg})
	}
}

func canon(raw []byte) string {
	var v any
	if len(raw) == 0 {
		return "null" // an absent member and an explicit null are the same thing in JSON-RPC
	}
	if err := json.Unmarshal(raw, &v); err != nil {
		return "<invalid:" + string(raw) + ">"
	}
	b, _ := json.Marshal(v)
	return string(b)
}

// same compares a message read back with its description.
func same(m Msg, got jsonrpc2.Message) error {
	switch g := got.(type) {
	case *jsonrpc2.Call:
		if m.Kind != "call" || g.ID() != m.id() || g.Method() != m.Method || canon(g.Params()) != canon([]byte(m.Payload)) {
			return fmt.Errorf("read call id=%v method=%q params=%s, wrote %+v", g.ID(), g.Method(), g.Params(), m)
		}
	case *jsonrpc2.Notification:
		if m.Kind != "notify" || g.Method() != m.Method || canon(g.Params()) != canon([]byte(m.Payload)) {
			return fmt.Errorf("read notification method=%q params=%s, wrote %+v", g.Method(), g.Params(), m)
		}
	case *jsonrpc2.Response:
		switch m.Kind {
		case "result":
			if g.ID() != m.id() || g.Err() != nil || canon(g.Result()) != canon([]byte(m.Payload)) {
				return fmt.Errorf("read response id=%v err=%v result=%s, wrote %+v", g.ID(), g.Err(), g.Result(), m)
			}
		case "error":
			var e *jsonrpc2.Error
			if g.ID() != m.id() || !errors.As(g.Err(), &e) || int32(e.Code) != m.ErrCode || e.Message != m.ErrMsg {
				return fmt.Errorf("read response id=%v err=%v, wrote %+v", g.ID(), g.Err(), m)
			}
		default:
			return fmt.Errorf("read a response, wrote %+v", m)
		}
	default:
		return fmt.Errorf("read %T, wrote %+v", got, m)
	}
	return nil
}

// ---------- transport doubles ----------

type bufConn struct {
	r io.Reader
	w *bytes.Buffer
}

func (b *bufConn) Read(p []byte) (int, error)  { return b.r.Read(p) }
func (b *bufConn) Write(p []byte) (int, error) { return b.w.Write(p) }
func (b *bufConn) Close() error                { return nil }

// chunkReader hands out the data in pieces of the given sizes (cycled), then EOF. It counts reads
// after EOF so that a reader that keeps polling a finished input is noticed.
type chunkReader struct {
	data     []byte
	sizes    []int
	i        int
	eofReads int
}

func (c *chunkReader) Read(p []byte) (int, error) {
	if len(c.data) == 0 {
		c.eofReads++
		if c.eofReads > 1000 {
			panic("reader polled more than 1000 times after EOF")
		}
		return 0, io.EOF
	}
	n := 1
	if len(c.sizes) > 0 {
		n = c.sizes[c.i%len(c.sizes)]
		c.i++
	}
	if n < 1 {
		n = 1
	}
	if n > len(c.data) {
		n = len(c.data)
	}
	if n > len(p) {
		n = len(p)
	}
	copy(p, c.data[:n])
	c.data = c.data[n:]
	return n, nil
}

// parseFrames is the harness's own frame parser: `Content-Length: N\r\n` (+ other headers)
// `\r\n` + N bytes.
func parseFrames(b []byte) ([][]byte, error) {
	var out [][]byte
	for len(b) > 0 {
		end := bytes.Index(b, []byte("\r\n\r\n"))
		if end < 0 {
			return out, fmt.Errorf("no header terminator in %q", clip(string(b)))
		}
		n := -1
		for _, line := range strings.Split(string(b[:end]), "\r\n") {
			k, v, ok := strings.Cut(line, ":")
			if !ok {
				return out, fmt.Errorf("bad header line %q", line)
			}
			if k == "Content-Length" {
				x, err := strconv.Atoi(strings.TrimSpace(v))
				if err != nil {
					return out, fmt.Errorf("bad length %q", v)
				}
				n = x
			}
		}
		b = b[end+4:]
		if n < 0 || n > len(b) {
			return out, fmt.Errorf("length %d but %d bytes follow", n, len(b))
		}
		out = append(out, b[:n])
		b = b[n:]
	}
	return out, nil
}

func clip(s string) string {
	if len(s) > 120 {
		return s[:100] + fmt.Sprintf("...(%d bytes)", len(s))
	}
	return s
}

// ---------- round trip ----------

type RoundTripCase struct {
	Msgs   []Msg `json:"msgs"`
	Chunks []int `json:"chunks"` // read sizes, cycled
	// Before: bodies of well-framed messages that another connection of the same process reads
	// first (an editor and gopls are two connections of one templ lsp process). They are JSON but not
	// JSON-RPC 2.0 messages; reading them fails, and must leave no trace.
	Before []string `json:"before,omitempty"`
}

// notMessages: valid JSON in a valid frame that is not a JSON-RPC 2.0 message, with members in
// front of the one that is rejected.
var notMessages = []string{
	`{"id":7,"method":"foo","jsonrpc":"1.0"}`,
	`{"id":"s","error":{"code":-1,"message":"stale"},"jsonrpc":"1.0"}`,
	`{"method":"m","params":{"a":1},"id":{"x":1}}`,
	`{"result":{"r":1},"id":5,"method":5}`,
	`{"jsonrpc":"2.0","id":9,"method":"late","params":[1,2],"error":"not an object"}`,
	`{"id":3,"result":"r","jsonrpc":2}`,
	`{"params":{"k":"v"},"method":"n","jsonrpc":"2.0","id":[1]}`,
}

var recRT = ev.New("C18", "c18.roundtrip",
	"sequences of 1..12 generated messages (calls, notifications, results, errors; numeric and string ids; params/results with multi-byte text and nested JSON) are written with stream.Write, every frame is re-parsed by the harness's own frame parser (Content-Length must count bytes, body must be the JSON of the message), "+
		"then the byte stream is read back with stream.Read through a reader that returns the bytes in generated chunk sizes (1 byte, boundaries inside headers, separators and multi-byte characters); messages read must equal messages written, then EOF must give an error; in a third of the cases another stream of the same process first reads well-framed JSON bodies that are not JSON-RPC messages (which must leave no trace). "+
		"Non-trivial = >=3 messages, some non-ASCII payload and chunk sizes that split a header or rune (max chunk < 16); distinct by (messages, chunking)")

func decideRoundTrip(c RoundTripCase) (err error) {
	defer func() {
		if x := recover(); x != nil {
			err = fmt.Errorf("panic: %v", x)
		}
	}()
	for _, body := range c.Before {
		other := jsonrpc2.NewStream(&bufConn{r: strings.NewReader(frame(body)), w: &bytes.Buffer{}})
		_, _, _ = other.Read(context.Background())
	}
	var wire bytes.Buffer
	ws := jsonrpc2.NewStream(&bufConn{r: strings.NewReader(""), w: &wire})
	var total int64
	for i, m := range c.Msgs {
		msg, err := m.build()
		if err != nil {
			return fmt.Errorf("harness: build message %d: %v", i, err)
		}
		n, err := ws.Write(context.Background(), msg)
		if err != nil {
			return fmt.Errorf("write message %d: %v", i, err)
		}
		total += n
	}
	if total != int64(wire.Len()) {
		return fmt.Errorf("Write reported %d bytes, %d were written", total, wire.Len())
	}
	frames, err := parseFrames(wire.Bytes())
	if err != nil {
		return fmt.Errorf("written stream is not a sequence of frames whose Content-Length counts bytes: %v", err)
	}
	if len(frames) != len(c.Msgs) {
		return fmt.Errorf("%d messages written, %d frames on the wire", len(c.Msgs), len(frames))
	}
	for i, f := range frames {
		var v map[string]any
		if err := json.Unmarshal(f, &v); err != nil {
			return fmt.Errorf("frame %d body is not JSON: %v: %q", i, err, clip(string(f)))
		}
		if v["jsonrpc"] != "2.0" {
			return fmt.Errorf("frame %d lacks jsonrpc 2.0: %q", i, clip(string(f)))
		}
	}
	cr := &chunkReader{data: append([]byte(nil), wire.Bytes()...), sizes: c.Chunks}
	rs := jsonrpc2.NewStream(&bufConn{r: cr, w: &bytes.Buffer{}})
	var readTotal int64
	for i, m := range c.Msgs {
		got, n, err := rs.Read(context.Background())
		if err != nil {
			return fmt.Errorf("read message %d: %v", i, err)
		}
		readTotal += n
		if err := same(m, got); err != nil {
			return fmt.Errorf("message %d: %v", i, err)
		}
	}
	if readTotal != int64(wire.Len()) {
		return fmt.Errorf("Read reported %d bytes for a stream of %d", readTotal, wire.Len())
	}
	if msg, _, err := rs.Read(context.Background()); err == nil {
		return fmt.Errorf("read past the end returned %v without error", msg)
	}
	return nil
}

var payloads = []string{`null`, `{}`, `[]`, `1`, `"x"`, `{"a":[1,2,{"b":null}],"c":"d"}`, `"héllo wörld"`, `{"text":"世界 😀  "}`, `[1.5,-2,true,false]`,
	`{"uri":"file:///tmp/a.templ","contentChanges":[{"range":{"start":{"line":1,"character":2},"end":{"line":1,"character":2}},"text":"é\n"}]}`,
	`"Content-Length: 5\r\n\r\n"`, `{"k":"` + strings.Repeat("长", 700) + `"}`, `"` + strings.Repeat("a", 5000) + `"`}

var genMsg = rapid.Custom(func(t *rapid.T) Msg {
	m := Msg{Kind: rapid.SampledFrom([]string{"call", "call", "notify", "result", "error"}).Draw(t, "kind")}
	if rapid.Bool().Draw(t, "strid") {
		m.IDStr = rapid.SampledFrom([]string{"a", "id-1", "ключ", "7", "x y", "\"q\""}).Draw(t, "idstr")
	} else {
		m.IDNum = rapid.Int32Range(0, 1<<30).Draw(t, "idnum")
	}
	switch m.Kind {
	case "call", "notify":
		m.Method = rapid.SampledFrom([]string{"initialize", "textDocument/didChange", "$/cancelRequest", "метод", "m"}).Draw(t, "method")
		m.Payload = rapid.SampledFrom(payloads).Draw(t, "payload")
		if m.Kind == "notify" {
			m.IDStr, m.IDNum = "", 0
		}
	case "result":
		m.Payload = rapid.SampledFrom(payloads).Draw(t, "payload")
	default:
		m.Payload = "null"
		m.ErrCode = rapid.SampledFrom([]int32{-32700, -32600, -32601, -32800, 1, 0}).Draw(t, "code")
		m.ErrMsg = rapid.SampledFrom([]string{"boom", "échec", "", "a\nb"}).Draw(t, "msg")
	}
	return m
})

var genChunks = rapid.OneOf(
	rapid.Just([]int{1}),
	rapid.SliceOfN(rapid.IntRange(1, 7), 1, 8),
	rapid.SliceOfN(rapid.IntRange(1, 40), 1, 8),
	rapid.SliceOfN(rapid.SampledFrom([]int{1, 2, 3, 15, 16, 17, 18, 19, 20, 21, 4095, 4096, 4097, 100000}), 1, 6),
)

func nonASCII(s string) bool {
	for i := 0; i < len(s); i++ {
		if s[i] >= 0x80 {
			return true
		}
	}
	return false
}

func TestPropRoundTrip(t *testing.T) {
	rapid.Check(t, func(t *rapid.T) {
		c := RoundTripCase{Msgs: rapid.SliceOfN(genMsg, 1, 12).Draw(t, "msgs"), Chunks: genChunks.Draw(t, "chunks")}
		if rapid.IntRange(0, 2).Draw(t, "withBefore") == 0 {
			c.Before = rapid.SliceOfN(rapid.SampledFrom(notMessages), 1, 3).Draw(t, "before")
			recRT.Class("after another connection read frames that are not JSON-RPC messages")
		}
		recRT.Eval(1)
		maxChunk, na := 0, false
		for _, x := range c.Chunks {
			maxChunk = max(maxChunk, x)
		}
		for _, m := range c.Msgs {
			na = na || nonASCII(m.Payload+m.Method+m.IDStr+m.ErrMsg)
			recRT.Class(m.Kind)
		}
		if len(c.Msgs) >= 3 && na && maxChunk < 16 {
			recRT.NonTrivial(fmt.Sprint(c), func() any {
				s := c
				s.Msgs = append([]Msg(nil), c.Msgs...)
				for i := range s.Msgs {
					s.Msgs[i].Payload = clip(s.Msgs[i].Payload)
				}
				return s
			})
		}
		if err := decideRoundTrip(c); err != nil {
			recRT.Fail(t, c, "%v", err)
		}
	})
}

// ---------- malformed input ----------

type MalformedCase struct {
	Data   ev.QStr `json:"data"`
	Chunks []int   `json:"chunks"`
}

var recMal = ev.New("C18", "c18.malformed",
	"byte streams made of valid frames with generated damage (missing/negative/zero/non-numeric/too-large Content-Length, truncated header or body, extra and lower-case headers, missing separator, garbage, bare LF line ends) are read with stream.Read until it reports an error: "+
		"no panic, termination within 10 s, at most one message per well-formed frame, no read that keeps polling after EOF, and every message returned before the damage equals what the harness's own parser finds. Non-trivial = the damage is not at offset 0 (at least one good frame precedes it); distinct by bytes")

func decideMalformed(c MalformedCase) error {
	type res struct {
		n   int
		err error
	}
	done := make(chan res, 1)
	go func() {
		var r res
		defer func() {
			if x := recover(); x != nil {
				r.err = fmt.Errorf("panic: %v", x)
			}
			done <- r
		}()
		cr := &chunkReader{data: []byte(c.Data), sizes: c.Chunks}
		rs := jsonrpc2.NewStream(&bufConn{r: cr, w: &bytes.Buffer{}})
		for {
			msg, _, err := rs.Read(context.Background())
			if err != nil {
				return
			}
			if msg == nil {
				r.err = errors.New("Read returned neither a message nor an error")
				return
			}
			r.n++
			if r.n > len(c.Data) {
				r.err = errors.New("more messages than input bytes")
				return
			}
		}
	}()
	select {
	case r := <-done:
		if r.err != nil {
			return r.err
		}
		// at most as many messages as my own parser finds complete frames (it stops at the damage too)
		frames, _ := parseFramesLenient([]byte(c.Data))
		if r.n > frames {
			return fmt.Errorf("%d messages read from a stream holding %d complete frames", r.n, frames)
		}
		return nil
	case <-time.After(10 * time.Second):
		return errors.New("reading did not terminate within 10s")
	}
}

// parseFramesLenient counts frames the way a tolerant reader may: header lines end in LF with
// optional CR, names are matched exactly, the body must be complete.
func parseFramesLenient(b []byte) (int, error) {
	n := 0
	for len(b) > 0 {
		length := -1
		for {
			nl := bytes.IndexByte(b, '\n')
			if nl < 0 {
				return n, errors.New("truncated header")
			}
			line := strings.TrimSpace(string(b[:nl]))
			b = b[nl+1:]
			if line == "" {
				break
			}
			k, v, ok := strings.Cut(line, ":")
			if !ok {
				return n, errors.New("bad header")
			}
			if k == "Content-Length" {
				x, err := strconv.Atoi(strings.TrimSpace(v))
				if err != nil || x <= 0 {
					return n, errors.New("bad length")
				}
				length = x
			}
		}
		if length < 0 || length > len(b) {
			return n, errors.New("bad or truncated body")
		}
		b = b[length:]
		n++
	}
	return n, nil
}

func frame(body string) string { return fmt.Sprintf("Content-Length: %d\r\n\r\n%s", len(body), body) }

var goodBodies = []string{`{"jsonrpc":"2.0","method":"m","params":null}`, `{"jsonrpc":"2.0","id":1,"method":"é","params":{"a":"世"}}`, `{"jsonrpc":"2.0","id":"x","result":[1,2]}`}

var badPieces = []string{
	"Content-Length: -1\r\n\r\n{}", "Content-Length: 0\r\n\r\n", "Content-Length: abc\r\n\r\n{}", "Content-Length: 99999999999\r\n\r\n{}", "Content-Length: 1048576\r\n\r\n{}",
	"Content-Length: 10\r\n\r\n{}", "Content-Length: 2\r\n{}", "content-length: 2\r\n\r\n{}", "Content-Length 2\r\n\r\n{}", "\r\n\r\n{}", "\r\n", "{}", "Content-Length: 2\r\n\r\n{", "Content-Length: 2\r\n\r\nxx",
	"Content-Length: 2\n\n{}", "Content-Type: x\r\nContent-Length: 2\r\n\r\n{}", "Content-Length: 2\r\nContent-Length: 3\r\n\r\n{}x", "Content-Length: 2\r\nX: y\r\n\r\n[]", "Content-Length: 4\r\n\r\nnull",
	"Content-Length: 2", "Content-Length: ", ":\r\n\r\n", "\x00\xff\xfe", "Content-Length: 2\r\n\r\n{}garbage", " Content-Length : 2 \r\n\r\n{}", "Content-Length: +2\r\n\r\n{}", "Content-Length: 0x2\r\n\r\n{}",
	`Content-Length: 30` + "\r\n\r\n" + `{"jsonrpc":"1.0","method":"m"}`, `Content-Length: 17` + "\r\n\r\n" + `{"jsonrpc":"2.0"}`,
}

var genMalformed = rapid.Custom(func(t *rapid.T) MalformedCase {
	var sb strings.Builder
	for i, n := 0, rapid.IntRange(0, 3).Draw(t, "good"); i < n; i++ {
		sb.WriteString(frame(rapid.SampledFrom(goodBodies).Draw(t, "body")))
	}
	switch rapid.IntRange(0, 3).Draw(t, "damage") {
	case 0:
		sb.WriteString(rapid.SampledFrom(badPieces).Draw(t, "bad"))
	case 1: // truncate a good frame
		f := frame(rapid.SampledFrom(goodBodies).Draw(t, "tbody"))
		sb.WriteString(f[:rapid.IntRange(0, len(f)-1).Draw(t, "cut")])
	case 2: // flip a byte in a good frame's header
		f := []byte(frame(rapid.SampledFrom(goodBodies).Draw(t, "fbody")))
		f[rapid.IntRange(0, 19).Draw(t, "pos")] = rapid.Byte().Draw(t, "byte")
		sb.Write(f)
	default:
		sb.Write(rapid.SliceOfN(rapid.Byte(), 0, 40).Draw(t, "garbage"))
	}
	if rapid.Bool().Draw(t, "trailing") {
		sb.WriteString(frame(rapid.SampledFrom(goodBodies).Draw(t, "after")))
	}
	return MalformedCase{Data: ev.QStr(sb.String()), Chunks: genChunks.Draw(t, "chunks")}
})

// TestPropShortLastFrame: the stream ends before the last frame's Content-Length bytes have arrived,
// and what did arrive is a complete JSON value all the same (a length that overstates the body, a
// cut inside trailing padding): enumerated over bodies, paddings and missing byte counts.
func TestPropShortLastFrame(t *testing.T) {
	n := 0
	for _, body := range goodBodies {
		for _, pad := range []string{"", " ", "\n", "   \r\n"} {
			for missing := 1; missing <= 4; missing++ {
				for _, before := range []string{"", frame(goodBodies[0])} {
					full := body + pad
					// declared: the body and its padding plus bytes that never come
					data := before + fmt.Sprintf("Content-Length: %d\r\n\r\n%s", len(full)+missing, full)
					if len(pad) >= missing {
						// or: the padding is cut short
						data = before + fmt.Sprintf("Content-Length: %d\r\n\r\n%s", len(full), full[:len(full)-missing])
					}
					c := MalformedCase{Data: ev.QStr(data), Chunks: []int{7}}
					n++
					recMal.Eval(1)
					if err := decideMalformed(c); err != nil {
						recMal.Fail(t, c, "%v", err)
					}
				}
			}
		}
	}
	recMal.ClassN("last frame shorter than its Content-Length although the bytes are complete JSON (enumerated)", n)
	recMal.Enumerated(int64(n))
}

func TestPropMalformed(t *testing.T) {
	rapid.Check(t, func(t *rapid.T) {
		c := genMalformed.Draw(t, "case")
		recMal.Eval(1)
		if strings.HasPrefix(string(c.Data), "Content-Length: 4") || strings.HasPrefix(string(c.Data), "Content-Length: 5") || strings.HasPrefix(string(c.Data), "Content-Length: 6") {
			recMal.NonTrivial(string(c.Data), func() any { return map[string]any{"data": clip(string(c.Data)), "chunks": c.Chunks} })
		}
		if err := decideMalformed(c); err != nil {
			recMal.Fail(t, c, "%v", err)
		}
	})
}

func FuzzStreamRead(f *testing.F) {
	for _, b := range goodBodies {
		f.Add([]byte(frame(b)), uint8(1))
	}
	for _, p := range badPieces {
		f.Add([]byte(frame(goodBodies[0])+p), uint8(3))
	}
	f.Fuzz(func(t *testing.T, data []byte, chunk uint8) {
		if len(data) > 1<<16 {
			return
		}
		// keep declared lengths small so that the fuzzer does not spend its time allocating
		if i := bytes.Index(data, []byte("Content-Length: ")); i >= 0 {
			digits := 0
			for j := i + 16; j < len(data) && data[j] >= '0' && data[j] <= '9'; j++ {
				digits++
			}
			if digits > 6 {
				return
			}
		}
		c := MalformedCase{Data: ev.QStr(data), Chunks: []int{int(chunk)}}
		recMal.Eval(1)
		if err := decideMalformed(c); err != nil {
			recMal.Fail(t, c, "%v", err)
		}
	})
}

func init() {
	ev.RegisterReplay("c18.roundtrip", func(raw json.RawMessage) error {
		var c RoundTripCase
		if err := json.Unmarshal(raw, &c); err != nil {
			return err
		}
		return decideRoundTrip(c)
	})
	ev.RegisterReplay("c18.malformed", func(raw json.RawMessage) error {
		var c MalformedCase
		if err := json.Unmarshal(raw, &c); err != nil {
			return err
		}
		return decideMalformed(c)
	})
	ev.RegisterReplay("c18.concurrent", func(raw json.RawMessage) error {
		var c Plan
		if err := json.Unmarshal(raw, &c); err != nil {
			return err
		}
		// schedule-dependent: try the plan repeatedly
		for i := 0; i < 50; i++ {
			if err := decidePlan(c); err != nil {
				return err
			}
		}
		return nil
	})
}

func TestReplay(t *testing.T) {
	for _, r := range ev.RunReplays() {
		t.Logf("%+v", r)
	}
}

var _ = reflect.DeepEqual
