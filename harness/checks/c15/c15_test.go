package c15

import (
	"context"
	"encoding/json"
	"fmt"
	"io"
	"io/fs"
	"log/slog"
	"os"
	"os/exec"
	"path/filepath"
	"runtime"
	"sort"
	"strings"
	"sync"
	"testing"
	"time"

	"github.com/a-h/templ"
	"github.com/a-h/templ/cmd/templ/generatecmd"
	"github.com/a-h/templ/generator"
	"pgregory.net/rapid"

	"verif/ev"
	"verif/tc"
)

func TestMain(m *testing.M) {
	code := m.Run()
	ev.FlushAll()
	os.Exit(code)
}

// File is one file of a generated tree. Path uses '/' and is relative to the root.
type File struct {
	Path    string `json:"path"`
	Content string `json:"content"`
	Age     int    `json:"age"` // mtime = base - Age seconds (larger = older)
}

type Case struct {
	Files       []File `json:"files"`
	Workers     int    `json:"workers"`
	Procs       int    `json:"procs"`
	KeepOrphans bool   `json:"keep_orphans"`
	Lazy        bool   `json:"lazy"`
	Version     bool   `json:"version"`
	// Edits are applied to the tree between the first and the second run (an edited template gets
	// a modification time later than anything the first run wrote).
	Edits []Edit `json:"edits,omitempty"`
	// Binary: run the compiled templ command (`templ generate -path ...`) as a child process
	// instead of calling generatecmd.Run in this process.
	Binary bool `json:"binary,omitempty"`
}

var (
	binOnce sync.Once
	binPath string
)

// templBinary builds /repo's cmd/templ once per test process.
func templBinary() string {
	binOnce.Do(func() {
		dir := os.Getenv("VERIF_SCRATCH")
		if dir == "" {
			dir = os.TempDir()
		}
		binPath = filepath.Join(dir, fmt.Sprintf("templ-bin-%d", os.Getpid()))
		cmd := exec.Command("go", "build", "-o", binPath, "github.com/a-h/templ/cmd/templ")
		cmd.Dir = tc.HarnessDir()
		cmd.Env = append(os.Environ(), "GOFLAGS=-mod=mod", "GOPROXY=off", "GOSUMDB=off", "GOTOOLCHAIN=local")
		if out, err := cmd.CombinedOutput(); err != nil {
			panic(fmt.Sprintf("harness: cannot build cmd/templ: %v\n%s", err, out))
		}
	})
	return binPath
}

// runBinary runs `templ generate` the way a user does. A non-zero exit status is the error.
func runBinary(c Case, root string) error {
	args := []string{"generate", "-path", root, "-w", fmt.Sprint(c.Workers), fmt.Sprintf("-include-version=%v", c.Version), "-log-level", "error"}
	if c.KeepOrphans {
		args = append(args, "-keep-orphaned-files")
	}
	if c.Lazy {
		args = append(args, "-lazy")
	}
	cmd := exec.Command(templBinary(), args...)
	cmd.Dir = filepath.Dir(root)
	cmd.Env = os.Environ()
	if c.Procs > 0 {
		cmd.Env = append(cmd.Env, fmt.Sprintf("GOMAXPROCS=%d", c.Procs))
	}
	out, err := cmd.CombinedOutput()
	if err != nil {
		if _, ok := err.(*exec.ExitError); ok {
			return fmt.Errorf("templ generate exited with %v: %s", err, clip(string(out)))
		}
		panic("harness: cannot run the templ binary: " + err.Error())
	}
	return nil
}

// Edit replaces the content of a .templ file of the tree, or removes it.
type Edit struct {
	Path    string `json:"path"`
	Content string `json:"content"`
	Delete  bool   `json:"delete,omitempty"`
}

var rec = ev.New("C15", "c15.tree",
	"generated directory trees (depth <=4, <=40 files; directory names normal / vendor / node_modules / .x / _x / look-alikes vendor2, x_, a.b; files: distinct valid .templ, unparsable .templ, .templ whose Go does not gofmt, stale (short, long, or the output of another template) / newer _templ.go, orphaned _templ.go, other .go and other files; explicit mtimes incl. the Unix epoch and times before it) "+
		"x flags keep-orphaned / lazy / include-version x worker count 1..32 x GOMAXPROCS; generatecmd.Run in-process under -race - or, in a quarter of the cases, the compiled `templ generate` command as a child process - twice; in two thirds of the cases 1-4 templates are edited between the runs (replaced by another valid template with shorter or longer output, emptied, broken, or removed) and the second run is compared with the expectation for the edited tree. Oracle: an expected tree computed independently per file (single-file parse+generate+gofmt with the file's relative name; own skip rule; orphan and lazy rules); every path and byte compared; error returned iff some reachable .templ is ungenerable; without edits the second run changes no content. "+
		"Non-trivial = tree has a skipped directory containing a .templ, an orphan, and >=2 generable files; distinct by (tree, flags, workers)")

var discard = slog.New(slog.NewTextHandler(io.Discard, nil))

func skipName(name string) bool {
	return name == "vendor" || name == "node_modules" || strings.HasPrefix(name, ".") || strings.HasPrefix(name, "_")
}

// skipped: some directory component of the path is skipped by templ's documented rule.
func skipped(p string) bool {
	parts := strings.Split(p, "/")
	for _, d := range parts[:len(parts)-1] {
		if skipName(d) {
			return true
		}
	}
	return false
}

var base = time.Date(2024, 1, 2, 3, 4, 5, 0, time.UTC)

func (c Case) materialise(root string) error {
	for _, f := range c.Files {
		p := filepath.Join(root, filepath.FromSlash(f.Path))
		if err := os.MkdirAll(filepath.Dir(p), 0o755); err != nil {
			return err
		}
		if err := os.WriteFile(p, []byte(f.Content), 0o644); err != nil {
			return err
		}
		mt := base.Add(-time.Duration(f.Age) * time.Second)
		if err := os.Chtimes(p, mt, mt); err != nil {
			return err
		}
	}
	return nil
}

func readTree(root string) (map[string]string, error) {
	out := map[string]string{}
	err := filepath.WalkDir(root, func(p string, d fs.DirEntry, err error) error {
		if err != nil {
			return err
		}
		if d.IsDir() {
			return nil
		}
		b, err := os.ReadFile(p)
		if err != nil {
			return err
		}
		rel, _ := filepath.Rel(root, p)
		out[filepath.ToSlash(rel)] = string(b)
		return nil
	})
	return out, err
}

// expected computes the tree `templ generate` must leave behind, and whether it must fail.
func (c Case) expected() (tree map[string]string, mustFail bool, generable int) {
	tree, mustFail, generable, _ = c.expectedWritten()
	return
}

// expectedWritten additionally reports which generated files the run writes.
func (c Case) expectedWritten() (tree map[string]string, mustFail bool, generable int, written map[string]bool) {
	written = map[string]bool{}
	tree = map[string]string{}
	age := map[string]int{}
	for _, f := range c.Files {
		tree[f.Path] = f.Content
		age[f.Path] = f.Age
	}
	var opts []generator.GenerateOpt
	if c.Version {
		opts = append(opts, generator.WithVersion(templ.Version()))
	}
	for _, f := range c.Files {
		if skipped(f.Path) {
			continue
		}
		switch {
		case strings.HasSuffix(f.Path, ".templ"):
			target := strings.TrimSuffix(f.Path, ".templ") + "_templ.go"
			g, _, err := tc.GenerateOpts(f.Content, f.Path, opts...)
			if err != nil {
				mustFail = true
				continue
			}
			generable++
			if old, ok := age[target]; ok && c.Lazy && old < f.Age {
				continue // the Go file is newer than the template: lazy leaves it alone
			}
			tree[target] = g.Go
			written[target] = true
		case strings.HasSuffix(f.Path, "_templ.go"):
			if _, ok := tree[strings.TrimSuffix(f.Path, "_templ.go")+".templ"]; !ok && !c.KeepOrphans {
				delete(tree, f.Path)
			}
		}
	}
	return tree, mustFail, generable, written
}

const (
	ageWrittenByRun1 = -1_000_000_000 // newer than every generated mtime
	ageEdited        = -2_000_000_000 // newer still
)

// afterEdits is the case the second run faces: the tree the first run must leave behind, with
// the edits applied.
func (c Case) afterEdits() Case {
	tree, _, _, written := c.expectedWritten()
	age := map[string]int{}
	for _, f := range c.Files {
		age[f.Path] = f.Age
	}
	for p := range written {
		age[p] = ageWrittenByRun1
	}
	for _, e := range c.Edits {
		if e.Delete {
			delete(tree, e.Path)
			continue
		}
		tree[e.Path] = e.Content
		age[e.Path] = ageEdited
	}
	c2 := c
	c2.Edits = nil
	c2.Files = nil
	var paths []string
	for p := range tree {
		paths = append(paths, p)
	}
	sort.Strings(paths)
	for _, p := range paths {
		c2.Files = append(c2.Files, File{Path: p, Content: tree[p], Age: age[p]})
	}
	return c2
}

func (c Case) applyEdits(root string) error {
	future := time.Now().Add(time.Hour)
	for _, e := range c.Edits {
		p := filepath.Join(root, filepath.FromSlash(e.Path))
		if e.Delete {
			if err := os.Remove(p); err != nil {
				return err
			}
			continue
		}
		if err := os.WriteFile(p, []byte(e.Content), 0o644); err != nil {
			return err
		}
		if err := os.Chtimes(p, future, future); err != nil {
			return err
		}
	}
	return nil
}

func diffTrees(want, got map[string]string) error {
	var keys []string
	for k := range want {
		keys = append(keys, k)
	}
	for k := range got {
		if _, ok := want[k]; !ok {
			keys = append(keys, k)
		}
	}
	sort.Strings(keys)
	for _, k := range keys {
		w, wok := want[k]
		g, gok := got[k]
		switch {
		case wok && !gok:
			return fmt.Errorf("%s is missing", k)
		case !wok && gok:
			return fmt.Errorf("%s exists but should not (content %q)", k, clip(g))
		case w != g:
			return fmt.Errorf("%s differs: got %q, want %q", k, clip(g), clip(w))
		}
	}
	return nil
}

func clip(s string) string {
	if len(s) > 200 {
		return s[:200] + fmt.Sprintf("...(%d bytes)", len(s))
	}
	return s
}

var caseN int

func decide(c Case) (err error) {
	scratch := os.Getenv("VERIF_SCRATCH")
	if scratch == "" {
		scratch = os.TempDir()
	}
	caseN++
	root := filepath.Join(scratch, fmt.Sprintf("c15-%d-%d", os.Getpid(), caseN), "proj")
	defer os.RemoveAll(filepath.Dir(root))
	if err := c.materialise(root); err != nil {
		panic("harness: " + err.Error())
	}
	if c.Procs > 0 {
		defer runtime.GOMAXPROCS(runtime.GOMAXPROCS(c.Procs))
	}
	want, mustFail, _ := c.expected()
	args := generatecmd.Arguments{Path: root, WorkerCount: c.Workers, KeepOrphanedFiles: c.KeepOrphans, Lazy: c.Lazy, IncludeVersion: c.Version}
	for run := 1; run <= 2; run++ {
		if run == 2 && len(c.Edits) > 0 {
			if err := c.applyEdits(root); err != nil {
				panic("harness: " + err.Error())
			}
			want, mustFail, _ = c.afterEdits().expected()
		}
		var runErr error
		done := make(chan struct{})
		go func() {
			defer close(done)
			defer func() {
				if x := recover(); x != nil {
					runErr = fmt.Errorf("panic: %v", x)
					err = runErr
				}
			}()
			if c.Binary {
				runErr = runBinary(c, root)
			} else {
				runErr = generatecmd.Run(context.Background(), discard, args)
			}
		}()
		select {
		case <-done:
		case <-time.After(120 * time.Second):
			return fmt.Errorf("run %d: templ generate did not finish within 120s", run)
		}
		if err != nil {
			return err
		}
		if r := ev.RaceCheck(); r != "" {
			return fmt.Errorf("run %d (workers=%d): the race detector reported a data race:\n%s", run, c.Workers, r)
		}
		if mustFail && runErr == nil {
			return fmt.Errorf("run %d: a template cannot be generated but the command reported success", run)
		}
		if !mustFail && runErr != nil {
			return fmt.Errorf("run %d: every template is generable but the command failed: %v", run, runErr)
		}
		got, rerr := readTree(root)
		if rerr != nil {
			panic("harness: " + rerr.Error())
		}
		if derr := diffTrees(want, got); derr != nil {
			return fmt.Errorf("run %d (workers=%d): %v", run, c.Workers, derr)
		}
		// For the second run lazy decisions are taken against the files the first run wrote; the
		// contents it may produce are the same either way.
	}
	return nil
}

func init() {
	ev.RegisterReplay("c15.tree", func(raw json.RawMessage) error {
		var c Case
		if err := json.Unmarshal(raw, &c); err != nil {
			return err
		}
		for i := 0; i < 5; i++ {
			if err := decide(c); err != nil {
				return err
			}
		}
		return nil
	})
}

// ---------- generators ----------

var dirNames = []string{"a", "b", "pkg", "views", "vendor", "node_modules", ".git", ".hidden", "_skip", "_", "vendor2", "x_", "a.b", "Vendor", "node_modules_x", "templ",
	// names that contain, without ending in, the suffixes the generator maps between
	"site_templ.go.old", "x.templ.d", "v_templ.go_bak", "site_templ.go.old",
	// characters that are legal in file names and special to patterns, shells or line-based tools
	"two\nlines", "sp ace", "tab\there", "semi;colon", "quote'", "pct%20", "dollar$HOME", "[brackets]", "star*", "+plus", "caret^", "(paren)", "pipe|", "back\\slash", "é✓"}

func validTempl(pkg string, n int, variant int) string {
	switch variant % 7 {
	case 5:
		// Go code that gofmt rewrites: spacing, grouped declarations on one line, number literals
		// with upper-case prefixes and exponents
		return fmt.Sprintf("package %s\n\nimport \"fmt\"\n\nconst   mask%d=0XFF\nvar ( a%d = 1E3 ; b%d   = 0B101 )\n\ntempl T%d() {\n\t<p>{ fmt.Sprint( mask%d ,a%d,b%d , 0O17) }</p>\n}\n", pkg, n, n, n, n, n, n, n)
	case 6:
		return fmt.Sprintf("package %s\n\nimport \"fmt\"\n\ntempl T%d(n int) {\n\t{{ x%d:=n+0X10 }}\n\tif n>0X1 {\n\t\t<i>{ fmt.Sprint(x%d,0X1P-2) }</i>\n\t}\n}\n", pkg, n, n, n)
	case 0:
		return fmt.Sprintf("package %s\n\ntempl T%d(s string) {\n\t<div id=\"%d\">{ s }</div>\n}\n", pkg, n, n)
	case 1:
		return fmt.Sprintf("package %s\n\nimport \"fmt\"\n\ntempl T%d(n int) {\n\tfor i := 0; i < n; i++ {\n\t\t<p>{ fmt.Sprint(i) } of %d</p>\n\t}\n}\n", pkg, n, n)
	case 2:
		return fmt.Sprintf("package %s\n\ncss c%d() {\n\tcolor: red;\n}\n\ntempl T%d() {\n\t<span class={ c%d() }>x%d</span>\n}\n", pkg, n, n, n, n)
	case 3:
		return fmt.Sprintf("package %s\n\nfunc f%d() (string, error) { return \"v%d\", nil }\n\ntempl T%d() {\n\t<b>{ f%d() }</b>\n\t@T%dInner() {\n\t\tchild\n\t}\n}\n\ntempl T%dInner() {\n\t{ children... }\n}\n", pkg, n, n, n, n, n, n)
	default:
		return fmt.Sprintf("package %s\n\nscript s%d(a string) {\n\tconsole.log(a);\n}\n\ntempl T%d() {\n\t<button onclick={ s%d(\"%d\") }>é %d</button>\n}\n", pkg, n, n, n, n, n)
	}
}

var badTempl = []string{
	"package p\n\ntempl Broken( {\n",
	"package p\n\ntempl X() {\n\t<div>\n}\n",
	"package p\n\ntempl X() {\n\t<div>{ 1 +* }</div>\n}\n",
	"this is not templ",
	"package p\n\nfunc bad( {\n\ntempl X() {\n\t<p>x</p>\n}\n",
	"package p\n\ntempl X() {\n\tif {\n\t}\n}\n",
}

var genCase = rapid.Custom(func(t *rapid.T) Case {
	c := Case{
		Workers:     rapid.SampledFrom([]int{1, 1, 2, 3, 4, 8, 16, 32}).Draw(t, "workers"),
		Procs:       rapid.SampledFrom([]int{0, 1, 2, 4}).Draw(t, "procs"),
		KeepOrphans: rapid.IntRange(0, 3).Draw(t, "keep") == 0,
		Lazy:        rapid.IntRange(0, 3).Draw(t, "lazy") == 0,
		Version:     rapid.IntRange(0, 3).Draw(t, "version") == 0,
		Binary:      rapid.IntRange(0, 3).Draw(t, "binary") == 0,
	}
	nDirs := rapid.IntRange(1, 8).Draw(t, "ndirs")
	dirs := []string{""}
	for i := 0; i < nDirs; i++ {
		parent := dirs[rapid.IntRange(0, len(dirs)-1).Draw(t, "parent")]
		if strings.Count(parent, "/") >= 3 {
			parent = ""
		}
		name := rapid.SampledFrom(dirNames).Draw(t, "dname")
		d := name
		if parent != "" {
			d = parent + "/" + name
		}
		dirs = append(dirs, d)
	}
	seen := map[string]bool{}
	add := func(f File) {
		if !seen[f.Path] {
			seen[f.Path] = true
			c.Files = append(c.Files, f)
		}
	}
	nFiles := rapid.IntRange(1, 24).Draw(t, "nfiles")
	for i := 0; i < nFiles; i++ {
		dir := dirs[rapid.IntRange(0, len(dirs)-1).Draw(t, "fdir")]
		stem := rapid.SampledFrom([]string{"index", "page", "comp", "x", "layout_v2", "é", "a_templ.go_x", "b.templ.c"}).Draw(t, "stem") + fmt.Sprint(i)
		p := func(name string) string {
			if dir == "" {
				return name
			}
			return dir + "/" + name
		}
		age := rapid.IntRange(0, 1000).Draw(t, "age")
		if rapid.IntRange(0, 7).Draw(t, "oddTime") == 0 {
			// modification times that archive and reproducible-build tooling produce: the Unix
			// epoch itself, just before it, and 1960 (os.Chtimes cannot set times beyond 2262)
			age = rapid.SampledFrom([]int{int(base.Unix()), int(base.Unix()) + 1, int(base.Unix()) + 315360000}).Draw(t, "oddAge")
		}
		switch kind := rapid.IntRange(0, 11).Draw(t, "kind"); {
		case kind <= 4: // valid templ, maybe with an existing generated file
			add(File{Path: p(stem + ".templ"), Content: validTempl("p", i, rapid.IntRange(0, 6).Draw(t, "variant")), Age: age})
			switch rapid.IntRange(0, 5).Draw(t, "existing") {
			case 4: // a stale generated file that is much longer than what will be generated
				add(File{Path: p(stem + "_templ.go"), Content: "package p\n\n// stale and long\n" + strings.Repeat("// left over from a bigger version of the template\n", 40+rapid.IntRange(0, 200).Draw(t, "pad")), Age: age + 1 + rapid.IntRange(0, 50).Draw(t, "older")})
			case 5: // the generated file of another, valid template (possibly longer or shorter)
				if g, _, err := tc.Generate(validTempl("p", i+100, rapid.IntRange(0, 6).Draw(t, "oldVariant")), stem+".templ"); err == nil {
					add(File{Path: p(stem + "_templ.go"), Content: g.Go, Age: age + 1 + rapid.IntRange(0, 50).Draw(t, "older")})
				}
			case 1:
				add(File{Path: p(stem + "_templ.go"), Content: "package p\n\n// stale\n", Age: age + 1 + rapid.IntRange(0, 50).Draw(t, "older")})
			case 2:
				add(File{Path: p(stem + "_templ.go"), Content: "package p\n\n// newer than the template\n", Age: max(0, age-1-rapid.IntRange(0, 50).Draw(t, "newer"))})
			}
		case kind == 5: // broken templ
			add(File{Path: p(stem + ".templ"), Content: rapid.SampledFrom(badTempl).Draw(t, "bad"), Age: age})
			if rapid.Bool().Draw(t, "brokenHasGo") {
				add(File{Path: p(stem + "_templ.go"), Content: "package p\n\n// from before it broke\n", Age: age + 5})
			}
		case kind == 6 || kind == 7: // orphan
			add(File{Path: p(stem + "_templ.go"), Content: "package p\n\n// orphan\n", Age: age})
		case kind == 8:
			add(File{Path: p(stem + ".go"), Content: "package p\n\nvar V" + fmt.Sprint(i) + " = 1\n", Age: age})
		case kind == 9:
			add(File{Path: p(stem + ".txt"), Content: "text " + fmt.Sprint(i), Age: age})
		case kind == 10:
			add(File{Path: p(stem + "_templ.txt"), Content: "left over dev mode text", Age: age})
		default:
			add(File{Path: p("README.md"), Content: "# readme", Age: age})
		}
	}
	// edits between the two runs: templates are replaced by another valid template (shorter or
	// longer output), by a broken one, or removed.
	if rapid.IntRange(0, 2).Draw(t, "withEdits") > 0 {
		var templs []string
		for _, f := range c.Files {
			if strings.HasSuffix(f.Path, ".templ") {
				templs = append(templs, f.Path)
			}
		}
		edited := map[string]bool{}
		for i, n := 0, rapid.IntRange(1, 4).Draw(t, "nedits"); i < n && len(templs) > 0; i++ {
			path := rapid.SampledFrom(templs).Draw(t, "editPath")
			if edited[path] {
				continue
			}
			edited[path] = true
			switch k := rapid.IntRange(0, 9).Draw(t, "editKind"); {
			case k <= 5:
				c.Edits = append(c.Edits, Edit{Path: path, Content: validTempl("p", 200+i, rapid.IntRange(0, 6).Draw(t, "editVariant"))})
			case k == 6:
				c.Edits = append(c.Edits, Edit{Path: path, Content: "package p\n\ntempl Tiny() {\n}\n"})
			case k == 7:
				c.Edits = append(c.Edits, Edit{Path: path, Content: rapid.SampledFrom(badTempl).Draw(t, "editBad")})
			default:
				c.Edits = append(c.Edits, Edit{Path: path, Delete: true})
			}
		}
	}
	return c
})

func nontrivial(c Case) bool {
	skippedTempl, orphan, gen := false, false, 0
	have := map[string]bool{}
	for _, f := range c.Files {
		have[f.Path] = true
	}
	for _, f := range c.Files {
		switch {
		case strings.HasSuffix(f.Path, ".templ") && skipped(f.Path):
			skippedTempl = true
		case strings.HasSuffix(f.Path, ".templ") && strings.HasPrefix(f.Content, "package p\n\n") && !strings.Contains(f.Content, "Broken") && !strings.Contains(f.Content, "templ X()") && !strings.Contains(f.Content, "func bad"):
			gen++
		case strings.HasSuffix(f.Path, "_templ.go") && !skipped(f.Path) && !have[strings.TrimSuffix(f.Path, "_templ.go")+".templ"]:
			orphan = true
		}
	}
	return skippedTempl && orphan && gen >= 2
}

func TestPropTree(t *testing.T) {
	rapid.Check(t, func(t *rapid.T) {
		c := genCase.Draw(t, "case")
		rec.Eval(1)
		rec.Class(fmt.Sprintf("workers=%d", c.Workers))
		if len(c.Edits) > 0 {
			rec.Class("edits between runs")
		}
		if c.Binary {
			rec.Class("compiled templ binary")
		}
		if c.Lazy {
			rec.Class("lazy")
		}
		if c.KeepOrphans {
			rec.Class("keep-orphans")
		}
		if nontrivial(c) {
			rec.NonTrivial(fmt.Sprint(c), func() any {
				var paths []string
				for _, f := range c.Files {
					paths = append(paths, f.Path)
				}
				return map[string]any{"paths": paths, "workers": c.Workers, "lazy": c.Lazy, "keep_orphans": c.KeepOrphans, "version": c.Version}
			})
		}
		if err := decide(c); err != nil {
			rec.Fail(t, c, "%v", err)
		}
	})
}

func TestReplay(t *testing.T) {
	for _, r := range ev.RunReplays() {
		t.Logf("%+v", r)
	}
}
