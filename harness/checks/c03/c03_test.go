package c03

import (
	"bytes"
	"context"
	"encoding/json"
	"fmt"
	"math"
	"os"
	"regexp"
	"strings"
	"testing"

	"github.com/a-h/templ"
	"pgregory.net/rapid"

	"verif/ev"
	"verif/fx"
	"verif/oracle/htmltok"
	"verif/oracle/jseval"
	"verif/sgen"
)

func TestMain(m *testing.M) {
	code := m.Run()
	ev.FlushAll()
	os.Exit(code)
}

// Val is a Go value as a tree, so that a case is reproducible from JSON.
type Val struct {
	Kind  string    `json:"kind"` // string int float bool null list map struct
	S     ev.QStr   `json:"s,omitempty"`
	I     int64     `json:"i,omitempty"`
	F     float64   `json:"f,omitempty"`
	B     bool      `json:"b,omitempty"`
	Items []Val     `json:"items,omitempty"`
	Keys  []ev.QStr `json:"keys,omitempty"`
}

type record struct {
	Name  string `json:"name"`
	Note  string `json:"<note>"`
	Count int    `json:"count,omitempty"`
	Tags  []string
	Inner *record `json:"inner"`
}

// Values whose Go kind is a number or a bool but whose JSON encoding is a string (the usual Go
// enum with MarshalText / MarshalJSON, e.g. slog.Level): the label is set when the value is built.
var enumLabel string

type enumText int

func (e enumText) MarshalText() ([]byte, error) { return []byte(enumLabel), nil }

type ratioText float64

func (r ratioText) MarshalText() ([]byte, error) { return []byte(enumLabel), nil }

type flagJSON bool

func (f flagJSON) MarshalJSON() ([]byte, error) { return json.Marshal(enumLabel) }

type uintJSON uint8

func (u uintJSON) MarshalJSON() ([]byte, error) {
	return json.Marshal(map[string]any{"name": enumLabel, "n": int(u)})
}

func (v Val) build() any {
	switch v.Kind {
	case "enum":
		enumLabel = string(v.S)
		switch v.I % 4 {
		case 0:
			return enumText(2)
		case 1:
			return ratioText(1.5)
		case 2:
			return flagJSON(true)
		default:
			return uintJSON(7)
		}
	case "string":
		return string(v.S)
	case "int":
		return v.I
	case "float":
		return v.F
	case "bool":
		return v.B
	case "null":
		return nil
	case "list":
		out := make([]any, len(v.Items))
		for i, it := range v.Items {
			out[i] = it.build()
		}
		return out
	case "map":
		out := map[string]any{}
		for i, k := range v.Keys {
			if i < len(v.Items) {
				out[string(k)] = v.Items[i].build()
			}
		}
		return out
	case "rawjson":
		// JSON text produced elsewhere (an upstream API body, a database column, an encoder with
		// SetEscapeHTML(false)): '<', '>', '&' and U+2028/9 are not escaped in it
		var inner any
		if len(v.Items) > 0 {
			inner = v.Items[0].build()
		}
		var buf bytes.Buffer
		enc := json.NewEncoder(&buf)
		enc.SetEscapeHTML(false)
		if err := enc.Encode(inner); err != nil {
			return nil
		}
		return json.RawMessage(bytes.TrimSpace(buf.Bytes()))
	case "nan":
		return math.NaN()
	case "inf":
		if v.B {
			return math.Inf(-1)
		}
		return math.Inf(1)
	case "nanstruct":
		// a value without a JSON encoding that carries a string: json.Marshal fails on the float
		return struct {
			Label string
			Ratio float64
		}{string(v.S), math.NaN()}
	case "chanstruct":
		return struct {
			Label string
			C     chan int
			F     func()
		}{Label: string(v.S)}
	case "struct":
		r := record{Name: string(v.S), Note: string(v.S) + "!", Count: int(v.I)}
		for _, k := range v.Keys {
			r.Tags = append(r.Tags, string(k))
		}
		if len(v.Items) > 0 {
			r.Inner = &record{Name: fmt.Sprint(v.Items[0].build())}
		}
		return r
	}
	return nil
}

type Case struct {
	Pos  string  `json:"pos"`
	V    Val     `json:"v"`
	S    ev.QStr `json:"s,omitempty"`    // second, string-only value for positions that take one
	Name string  `json:"name,omitempty"` // function name for the JSFuncCall positions
}

var rec = ev.New("C03", "c03.positions",
	"compiled fixtures for every JavaScript position (bare {{ }}, inside '…', \"…\", `…`, a script with comments/quotes/escapes around several expressions - some of them behind escaped quotes and escaped backticks inside their literal -, script template in on* attribute and as component, templ.JSFuncCall in attribute and as component with generated function names, JSON script element) are rendered with generated Go values "+
		"(strings over a JS/HTML-adversarial alphabet, every scalar value as a one-rune string in the thorough tier, invalid UTF-8, ints, finite floats, bools, nil, nested slices/maps/structs, json.RawMessage values whose text was encoded without HTML escaping, values of int / float / bool / uint kind whose MarshalText or MarshalJSON yields a string or an object, and values without a JSON encoding - NaN, Inf, structs holding a channel/func or NaN next to a string - for which only oracle 1 and the sentinel part of oracle 2 apply); oracle 1: HTML5 tokenizer sees the same structure as for a benign value (script element = one text token, on* attribute = one attribute); "+
		"oracle 2: V8 evaluates the emitted script bodies and decoded attribute values: no syntax error or exception, no sentinel (alert/pwn) call, and the values reaching cap() equal JSON.stringify(JSON.parse(<Go's JSON encoding>)) computed in the same engine (the original string for in-literal positions). "+
		"Non-trivial = the value contains a JS- or HTML-sensitive character; distinct by (position, value)")

var engine = jseval.New()

var positions = []string{"bare", "sq", "dq", "bt", "sq-any", "dq-any", "bt-any", "mixed", "on-attr", "on-attr-two", "call-script", "on-attr-func", "call-func", "on-attr-func-two", "json-script"}

func stringOnly(pos string) bool { return pos == "sq" || pos == "dq" || pos == "bt" }

func component(c Case, v any) templ.Component {
	s := string(c.S)
	switch c.Pos {
	case "bare":
		return fx.ScriptBare(v)
	case "sq":
		return fx.ScriptSQ(v.(string))
	case "dq":
		return fx.ScriptDQ(v.(string))
	case "bt":
		return fx.ScriptBT(v.(string))
	case "sq-any":
		return fx.ScriptSQ(v)
	case "dq-any":
		return fx.ScriptDQ(v)
	case "bt-any":
		return fx.ScriptBT(v)
	case "mixed":
		return fx.ScriptMixed(v, s)
	case "on-attr":
		return fx.OnAttr(v)
	case "on-attr-two":
		return fx.OnAttrTwo(v, s)
	case "call-script":
		return fx.CallScript(v)
	case "on-attr-func":
		return fx.OnAttrFunc(c.Name, v)
	case "call-func":
		return fx.CallFunc(c.Name, v)
	case "on-attr-func-two":
		return fx.OnAttrFuncTwo(v, s)
	case "json-script":
		return fx.JSONScr(v)
	}
	panic("unknown position " + c.Pos)
}

func render(c templ.Component) (out []byte, err error) {
	defer func() {
		if x := recover(); x != nil {
			err = fmt.Errorf("panic while rendering: %v", x)
		}
	}()
	var buf bytes.Buffer
	err = c.Render(context.Background(), &buf)
	return buf.Bytes(), err
}

var shapes = map[string][]htmltok.Tok{}

func shapeOf(c Case) []htmltok.Tok {
	key := c.Pos
	if t, ok := shapes[key]; ok {
		return t
	}
	b := Case{Pos: c.Pos, V: Val{Kind: "string", S: "benign"}, S: "benign", Name: "cap"}
	out, err := render(component(b, "benign"))
	if err != nil {
		panic(err)
	}
	t, _ := htmltok.Tokens(out)
	shapes[key] = t
	return t
}

// my own grammar for a JavaScript function name: a dotted path of identifiers
var dottedPath = regexp.MustCompile(`^[$_a-zA-Z][$_a-zA-Z0-9]*(\.[$_a-zA-Z][$_a-zA-Z0-9]*)*$`)

func norm(j string) (string, error) { return engine.NormalizeJSON(j) }

func mustJSON(v any) string {
	b, err := json.Marshal(v)
	if err != nil {
		panic(err)
	}
	return string(b)
}

func decide(c Case) error {
	v := c.V.build()
	if stringOnly(c.Pos) {
		if _, ok := v.(string); !ok {
			return nil
		}
	}
	if c.Name == "" {
		c.Name = "cap"
	}
	out, err := render(component(c, v))
	if err != nil {
		if _, jerr := json.Marshal(v); jerr != nil && !strings.Contains(err.Error(), "panic") {
			return nil // a value without JSON encoding may be refused with an error
		}
		return fmt.Errorf("render error: %v", err)
	}
	toks, err := htmltok.Tokens(out)
	if err != nil {
		return fmt.Errorf("tokenizer: %v", err)
	}
	// oracle 1: structure
	if err := htmltok.SameShape(shapeOf(c), toks); err != nil {
		return fmt.Errorf("HTML structure changed: %v; output %q", err, clip(string(out)))
	}
	// collect scripts and handler attributes in document order
	var scripts []string
	var jsonBodies []string
	var handlers []string
	for i, t := range toks {
		if t.Type == "start" && t.Name == "script" {
			isJSON := false
			for _, a := range t.Attrs {
				if a.Name == "type" && a.Val == "application/json" {
					isJSON = true
				}
			}
			body := ""
			if i+1 < len(toks) && toks[i+1].Type == "text" {
				body = toks[i+1].Data
			}
			if isJSON {
				jsonBodies = append(jsonBodies, body)
			} else {
				scripts = append(scripts, body)
			}
		}
		if t.Type == "start" {
			for _, a := range t.Attrs {
				if strings.HasPrefix(a.Name, "on") || strings.HasPrefix(a.Name, "hx-on") {
					handlers = append(handlers, a.Val)
				}
			}
		}
	}
	if _, jerr := json.Marshal(v); jerr != nil {
		// The value has no JSON encoding (NaN, Inf, a channel or func inside it): there is nothing
		// the emitted JavaScript could be equal to. What remains of the statement: it still cannot
		// leave its place (oracle 1 above) and cannot run code - whatever templ emits for it, the
		// engine must not reach a sentinel. A script that does not evaluate runs nothing.
		var code []string
		code = append(code, scripts...)
		code = append(code, handlers...)
		if r := engine.RunSeq(code, "var ns = {cap: cap};"); r.Sentinels > 0 {
			return fmt.Errorf("emitted JavaScript executed attacker code (sentinel called %d times) for a value without JSON encoding: scripts %q; output %q", r.Sentinels, clip(fmt.Sprint(code)), clip(string(out)))
		}
		return nil
	}
	// oracle 2: evaluation
	j := mustJSON(v)
	s := string(c.S)
	var want []string
	add := func(args ...any) {
		parts := make([]string, len(args))
		for i, a := range args {
			if raw, ok := a.(json.RawMessage); ok {
				parts[i] = string(raw)
			} else {
				parts[i] = mustJSON(a)
			}
		}
		n, err := norm("[" + strings.Join(parts, ",") + "]")
		if err != nil {
			panic(fmt.Sprintf("harness: cannot normalise %q: %v", parts, err))
		}
		want = append(want, n)
	}
	raw := json.RawMessage(j)
	validName := dottedPath.MatchString(c.Name)
	switch c.Pos {
	case "bare", "on-attr", "call-script":
		add(raw)
	case "sq", "dq", "bt":
		add(v.(string))
	case "sq-any", "dq-any", "bt-any":
		if sv, ok := v.(string); ok {
			add(sv)
		} else {
			add(j) // the JSON text as a string
		}
	case "mixed":
		add(raw, "pre-"+s+"-post", s, s+" and 2", "Run `"+s+"` now", "it's "+s, "q\""+s)
		add(raw)
	case "on-attr-two":
		// handlers are evaluated in attribute order: onmouseover(capTwo) then onclick(capArg)
		add(raw, s)
		add(s)
	case "on-attr-func", "call-func":
		if validName && (c.Name == "cap" || c.Name == "ns.cap") {
			add(raw)
		}
	case "on-attr-func-two":
		add(raw, s, 7)
	case "json-script":
	}
	var code []string
	code = append(code, scripts...)
	code = append(code, handlers...)
	var got []string
	{
		r := engine.RunSeq(code, "var ns = {cap: cap};")
		if r.Sentinels > 0 {
			return fmt.Errorf("emitted JavaScript executed attacker code (sentinel called %d times): scripts %q; output %q", r.Sentinels, clip(fmt.Sprint(code)), clip(string(out)))
		}
		if r.Err != "" {
			funcPos := c.Pos == "on-attr-func" || c.Pos == "call-func"
			if !(funcPos && !(validName && (c.Name == "cap" || c.Name == "ns.cap"))) {
				return fmt.Errorf("emitted JavaScript does not evaluate: %s: script %d of %q; output %q", r.Err, r.ErrIndex, clip(fmt.Sprint(code)), clip(string(out)))
			}
			// calling a name that does not exist (or the invalid-name fallback) may throw; it must not
			// run anything else, which the sentinel counter decides.
		}
		got = r.Captured
	}
	// A function name that is not a plain dotted path is the template author's input, not a value:
	// the statement only requires that it cannot smuggle code in (sentinel counter above) and
	// cannot break the markup (oracle 1). What exactly is emitted for it is not checked.
	if c.Pos == "json-script" {
		if len(jsonBodies) != 1 {
			return fmt.Errorf("expected one JSON script element, got %d; output %q", len(jsonBodies), clip(string(out)))
		}
		gotN, err := norm(strings.TrimSpace(jseval.ToValidUTF8(jsonBodies[0])))
		if err != nil {
			return fmt.Errorf("JSON script body does not parse as JSON: %v: %q", err, clip(jsonBodies[0]))
		}
		wantN, _ := norm(j)
		if gotN != wantN {
			return fmt.Errorf("JSON script body evaluates to %s, want %s", clip(gotN), clip(wantN))
		}
		return nil
	}
	if (c.Pos == "on-attr-func" || c.Pos == "call-func") && !(c.Name == "cap" || c.Name == "ns.cap") {
		return nil
	}
	if fmt.Sprint(got) != fmt.Sprint(want) {
		return fmt.Errorf("values reaching JavaScript %s, want %s; output %q", clip(fmt.Sprint(got)), clip(fmt.Sprint(want)), clip(string(out)))
	}
	return nil
}

func clip(s string) string {
	if len(s) > 300 {
		return s[:300] + fmt.Sprintf("...(%d bytes)", len(s))
	}
	return s
}

func init() {
	ev.RegisterReplay("c03.positions", func(raw json.RawMessage) error {
		var c Case
		if err := json.Unmarshal(raw, &c); err != nil {
			return err
		}
		return decide(c)
	})
}

// ---------- generators ----------

func genVal(depth int) *rapid.Generator[Val] {
	return rapid.Custom(func(t *rapid.T) Val {
		k := rapid.IntRange(0, 14).Draw(t, "kind")
		if depth <= 0 && k >= 8 && k != 12 && k != 14 {
			k = 0
		}
		switch {
		case k == 14:
			return Val{Kind: "enum", I: int64(rapid.IntRange(0, 3).Draw(t, "enumType")), S: ev.QStr(sgen.JSString().Draw(t, "label"))}
		case k == 13:
			return Val{Kind: "rawjson", Items: []Val{genVal(depth-1).Draw(t, "rawinner")}}
		case k == 12:
			// values encoding/json refuses, alone or carrying a string
			switch rapid.IntRange(0, 4).Draw(t, "unencodable") {
			case 0:
				return Val{Kind: "nan"}
			case 1:
				return Val{Kind: "inf", B: rapid.Bool().Draw(t, "neg")}
			case 2:
				return Val{Kind: "chanstruct", S: ev.QStr(sgen.JSString().Draw(t, "label"))}
			default:
				return Val{Kind: "nanstruct", S: ev.QStr(sgen.JSString().Draw(t, "label"))}
			}
		case k <= 4:
			return Val{Kind: "string", S: ev.QStr(sgen.JSString().Draw(t, "s"))}
		case k == 5:
			return Val{Kind: "int", I: rapid.OneOf(rapid.Int64Range(-5, 5), rapid.Int64(), rapid.Just(int64(math.MaxInt64)), rapid.Just(int64(1)<<53+1)).Draw(t, "i")}
		case k == 6:
			f := rapid.OneOf(rapid.Float64Range(-1e6, 1e6), rapid.SampledFrom([]float64{0, 1.5, -0.0, 1e21, 1e-7, 123456789.125, math.MaxFloat64, math.SmallestNonzeroFloat64})).Draw(t, "f")
			return Val{Kind: "float", F: f}
		case k == 7:
			if rapid.Bool().Draw(t, "null") {
				return Val{Kind: "null"}
			}
			return Val{Kind: "bool", B: rapid.Bool().Draw(t, "b")}
		case k == 8 || k == 9:
			return Val{Kind: "list", Items: rapid.SliceOfN(genVal(depth-1), 0, 3).Draw(t, "items")}
		case k == 10:
			keys := rapid.SliceOfN(sgen.JSString(), 0, 3).Draw(t, "keys")
			v := Val{Kind: "map"}
			for _, key := range keys {
				v.Keys = append(v.Keys, ev.QStr(key))
				v.Items = append(v.Items, genVal(depth-1).Draw(t, "mv"))
			}
			return v
		default:
			v := Val{Kind: "struct", S: ev.QStr(sgen.JSString().Draw(t, "name")), I: int64(rapid.IntRange(0, 3).Draw(t, "count"))}
			for _, tag := range rapid.SliceOfN(sgen.JSString(), 0, 2).Draw(t, "tags") {
				v.Keys = append(v.Keys, ev.QStr(tag))
			}
			if rapid.Bool().Draw(t, "inner") {
				v.Items = []Val{genVal(0).Draw(t, "innerv")}
			}
			return v
		}
	})
}

var funcNames = []string{"cap", "cap", "cap", "ns.cap", "ns.cap", "x", "f", "ab", "a.b.c", "ns.cap.", ".cap", "cap);alert(1", "cap//", "cap\nalert(1)//", "alert(1);cap", "(alert)", "cap`${alert(1)}`",
	"é", "ca p", "", "cap;", "ns['cap']", "</script><script>alert(1)//", "\" onmouseover=\"alert(1)", "cap&#40;", "$x._y", "a..b", "constructor.constructor"}

func sensitiveVal(v Val) bool {
	if sgen.Sensitive(string(v.S)) {
		return true
	}
	for _, k := range v.Keys {
		if sgen.Sensitive(string(k)) {
			return true
		}
	}
	for _, it := range v.Items {
		if sensitiveVal(it) {
			return true
		}
	}
	return false
}

func note(c Case) {
	rec.Eval(1)
	rec.Class(c.Pos)
	if sensitiveVal(c.V) || sgen.Sensitive(string(c.S)) || (c.Name != "" && !dottedPath.MatchString(c.Name)) {
		rec.NonTrivial(fmt.Sprint(c), func() any { return c })
	}
}

func TestPropPositions(t *testing.T) {
	rapid.Check(t, func(t *rapid.T) {
		c := Case{Pos: rapid.SampledFrom(positions).Draw(t, "pos")}
		if stringOnly(c.Pos) || rapid.IntRange(0, 2).Draw(t, "forceString") == 0 {
			c.V = Val{Kind: "string", S: ev.QStr(sgen.JSString().Draw(t, "sv"))}
		} else {
			c.V = genVal(2).Draw(t, "v")
		}
		if !stringOnly(c.Pos) && rapid.IntRange(0, 7).Draw(t, "wrapRaw") == 0 {
			// the value arrives as pre-encoded JSON text
			c.V = Val{Kind: "rawjson", Items: []Val{c.V}}
		}
		c.S = ev.QStr(sgen.JSString().Draw(t, "s"))
		if c.Pos == "on-attr-func" || c.Pos == "call-func" {
			c.Name = rapid.SampledFrom(funcNames).Draw(t, "name")
		}
		note(c)
		if err := decide(c); err != nil {
			rec.Fail(t, c, "%v", err)
		}
	})
}

// TestPropAllScalars: every scalar value (thorough) as a one-rune string and between two letters,
// in every position that takes a string.
func TestPropAllScalars(t *testing.T) {
	shard, shards := ev.Shard()
	var n int64
	strPositions := []string{"bare", "sq", "dq", "bt", "mixed", "on-attr", "call-script", "on-attr-func", "call-func", "json-script"}
	sgen.AllScalars(shard, shards, func(r rune) {
		if !ev.Thorough() && r >= 0x800 && r%1021 != 0 && !(r >= 0x2020 && r <= 0x2030) && !(r >= 0xfff0 && r <= 0xffff) {
			return
		}
		for _, pos := range strPositions {
			s := string(r)
			if r%2 == 1 {
				s = "a" + s + "b"
			}
			c := Case{Pos: pos, V: Val{Kind: "string", S: ev.QStr(s)}, S: ev.QStr(s), Name: "cap"}
			rec.Eval(1)
			if sgen.Sensitive(s) {
				n++
				if n%50000 == 1 {
					rec.Sample(c)
				}
			}
			if err := decide(c); err != nil {
				rec.Fail(t, c, "%v", err)
			}
		}
	})
	rec.Enumerated(n)
	rec.Set("all_scalar_values_enumerated", ev.Thorough())
}

func TestReplay(t *testing.T) {
	for _, r := range ev.RunReplays() {
		t.Logf("%+v", r)
	}
}
