package c16

import (
	"bytes"
	"encoding/json"
	"fmt"
	"os"
	"regexp"
	"sort"
	"strings"
	"testing"
	"time"
	"unicode/utf8"

	"github.com/a-h/templ/generator"
	"pgregory.net/rapid"

	"verif/batch"
	"verif/ev"
	"verif/oracle/gonorm"
	"verif/tbatch"
	"verif/tc"
	"verif/tgen"
	"verif/watchbuild"
)

func TestMain(m *testing.M) {
	code := m.Run()
	ev.FlushAll()
	os.Exit(code)
}

func options() tgen.Options {
	o := tgen.DefaultOptions
	o.ScriptExprs = true
	o.BigLiterals = true // static runs beyond 64 KiB: one very long line in the development text file
	return o
}

// ---------- (a) development-mode rendering equals normal rendering ----------

type DevCase struct {
	File *tgen.File `json:"file"`
	Args tgen.Args  `json:"args"`
}

var recDev = ev.New("C16", "c16.devmode-equals-normal",
	"tgen programs whose static text holds quotes, backslashes, tabs, non-ASCII characters, character references and (in style/script/comment content) line breaks are generated through generatecmd's FSEventHandler in development mode - exactly what `templ generate --watch` writes: _templ.go plus the development text file - and compiled once; the binary is run with and without TEMPL_DEV_MODE=true for generated argument tuples. "+
		"Oracle: byte-identical output and identical error status for every (program, arguments). Non-trivial = the program's literals need escaping in the text file (quote, backslash, tab, line break or non-ASCII); distinct by (program, arguments)")

func needsEscaping(src string) bool {
	return strings.ContainsAny(src, "\"\\\t") || strings.Contains(src, "é") || strings.Contains(src, "世")
}

func runDev(files []*tgen.File, jobs []tbatch.Job) (normal, dev []tbatch.Result, srcs []string, err error) {
	p, err := watchbuild.New(len(files))
	if err != nil {
		return nil, nil, nil, err
	}
	defer p.Close()
	for i, f := range files {
		src, _ := tgen.Print(f, fmt.Sprintf("P%d", i))
		srcs = append(srcs, src)
		if _, err := p.Put(i, src); err != nil {
			return nil, nil, srcs, &batch.GenError{File: fmt.Sprintf("p%d.templ", i), Stage: "watch generate", Err: err}
		}
	}
	if err := p.Build(false); err != nil {
		return nil, nil, srcs, err
	}
	b := &tbatch.Binary{Dir: p.Dir, Path: p.Bin}
	if normal, err = b.Run(jobs, nil, 120*time.Second); err != nil {
		return nil, nil, srcs, err
	}
	if dev, err = b.Run(jobs, p.DevEnv(), 120*time.Second); err != nil {
		return nil, nil, srcs, err
	}
	return normal, dev, srcs, nil
}

func judgeDev(n, d tbatch.Result) error {
	if n.Err != d.Err {
		return fmt.Errorf("normal mode error %q, development mode error %q", n.Err, d.Err)
	}
	if !bytes.Equal(n.Out, d.Out) {
		return fmt.Errorf("development mode renders %q, the generated code renders %q", clip(string(d.Out)), clip(string(n.Out)))
	}
	return nil
}

func decideDev(c DevCase) error {
	tgen.Normalize(c.File)
	n, d, srcs, err := runDev([]*tgen.File{c.File}, []tbatch.Job{tbatch.Plain(0, c.Args)})
	if err != nil {
		if _, ok := err.(*batch.GenError); ok {
			return nil
		}
		if be, ok := err.(*batch.BuildError); ok {
			return fmt.Errorf("generated code does not compile: %v", be)
		}
		panic("harness: " + err.Error())
	}
	if e := judgeDev(n[0], d[0]); e != nil {
		return fmt.Errorf("%v\n%s", e, srcs[0])
	}
	return nil
}

func TestPropDevMode(t *testing.T) {
	perBatch := ev.Pick(30, 50)
	tuples := ev.Pick(4, 8)
	g := tgen.GenFile(options())
	ga := tgen.GenArgs()
	rapid.Check(t, func(t *rapid.T) {
		var files []*tgen.File
		for len(files) < perBatch {
			f := g.Draw(t, "file")
			// a file saved in a legacy encoding: its static text holds bytes that are not UTF-8
			f.Latin1 = rapid.IntRange(0, 3).Draw(t, "latin1") == 0
			src, _ := tgen.Print(f, "P")
			if _, _, err := tc.Generate(src, "p.templ"); err != nil {
				continue
			}
			files = append(files, f)
		}
		var jobs []tbatch.Job
		for k := range files {
			for j := 0; j < tuples; j++ {
				jobs = append(jobs, tbatch.Plain(k, ga.Draw(t, "args")))
			}
		}
		n, d, srcs, err := runDev(files, jobs)
		if err != nil {
			for _, f := range files {
				if e := decideDev(DevCase{File: f}); e != nil {
					recDev.Fail(t, DevCase{File: f}, "%v", e)
				}
			}
			panic("harness: batch failed but no single program does: " + err.Error())
		}
		for i, j := range jobs {
			recDev.Eval(1)
			if !utf8.ValidString(srcs[j.K]) {
				recDev.Class("static text holds bytes that are not UTF-8")
			}
			if needsEscaping(srcs[j.K]) {
				recDev.NonTrivial(srcs[j.K]+fmt.Sprint(j.Args), func() any { return map[string]any{"source": clip(srcs[j.K]), "args": j.Args} })
			}
			if e := judgeDev(n[i], d[i]); e != nil {
				recDev.Fail(t, DevCase{File: files[j.K], Args: j.Args}, "%v\nargs %+v\n%s", e, j.Args, srcs[j.K])
			}
		}
	})
}

// ---------- (b) "no recompilation needed" is only said when the Go really is the same ----------

type EditCase struct {
	Versions []*tgen.File `json:"versions"`
	Edits    []string     `json:"edits"`
	// Faults lists versions whose save first hits a write fault (the handler cannot write the
	// generated file) and is then saved again, unchanged, once the fault is gone.
	Faults []int `json:"faults,omitempty"`
}

var recEdit = ev.New("C16", "c16.text-only-classification",
	"edit sequences T0 -> T1 -> ... (1..6 edits drawn from: text changes, constant attribute changes, renaming an expression attribute to/from style, class, href, action, onclick, hx-on:*, moving an expression between text, attribute and script positions, quoting/unquoting {{ }} inside a script, replacing a variable or literal inside any Go expression, swapping / wrapping / renaming / adding / dropping nodes; a third of the first versions carry an attribute name in upper or mixed case) are fed through generatecmd's FSEventHandler in development mode with advancing modification times. "+
		"Oracle: after every version the development text file on disk holds exactly that version's literals (what the running program will print); whenever the handler classifies an edit as needing no recompilation (GoUpdated == false), the Go generated for the new version must have the same token stream as the Go that was compiled last, with only the string literals handed to templruntime.WriteString and the positions in templ.Error masked - then the running binary reading the new text file is the new program. "+
		"Non-trivial = an edit classified text-only; distinct by (versions)")

// editError: known is true when the two versions have the same number of literals and the same
// list of expression texts, i.e. the misclassification is the one HasChanged's comparison rule
// cannot avoid (the listed finding); anything else is a new violation.
type editError struct {
	known bool
	msg   string
}

func (e *editError) Error() string { return e.msg }

var placeholder = regexp.MustCompile(`\{\{\s*(.*?)\s*\}\}`)

// scriptPlaceholders lists the Go expressions inside {{ }} of script elements, which tgen keeps
// as part of the script text (the printer has no record for them).
func scriptPlaceholders(f *tgen.File) []string {
	var out []string
	var walk func(ns []tgen.Node)
	walk = func(ns []tgen.Node) {
		for i := range ns {
			n := &ns[i]
			if n.Kind == "script" {
				for _, m := range placeholder.FindAllStringSubmatch(n.Text, -1) {
					out = append(out, m[1])
				}
			}
			walk(n.Kids)
			walk(n.Else)
			for j := range n.ElseIfs {
				walk(n.ElseIfs[j].Kids)
			}
			for j := range n.Cases {
				walk(n.Cases[j].Kids)
			}
		}
	}
	for i := range f.Templates {
		walk(f.Templates[i].Body)
	}
	return out
}

func masked(goSrc string) ([]gonorm.Tok, error) { return gonorm.Tokens(goSrc, true) }

func decideEdits(c EditCase) error {
	_, err := decideEditsN(c)
	return err
}

// decideEditsN also returns how many edits were classified text-only.
func decideEditsN(c EditCase) (textOnly int, err error) {
	p, perr := watchbuild.New(1)
	if perr != nil {
		panic("harness: " + perr.Error())
	}
	defer p.Close()
	var compiled []gonorm.Tok
	var compiledSrc string
	var compiledOut generator.GeneratorOutput
	var compiledExprs []string
	prevSrc := ""
	for i, f := range c.Versions {
		tgen.Normalize(f)
		src, recs := tgen.Print(f, "P0")
		// the Go expressions the template's author wrote (from the printer, not from templ)
		var exprs []string
		for _, r := range recs {
			exprs = append(exprs, strings.TrimSpace(r.Text))
		}
		exprs = append(exprs, scriptPlaceholders(f)...)
		sort.Strings(exprs)
		g, _, gerr := tc.Generate(src, "p0.templ")
		if gerr != nil {
			if i == 0 {
				return textOnly, nil
			}
			// A version templ generate rejects: the watcher reports the error, nothing is compiled,
			// and the author goes on editing - the next versions are still judged against the code
			// that was compiled last.
			_, _ = p.Put(0, src)
			recEdit.Class("a version that is not accepted in the middle of the sequence")
			continue
		}
		for _, fi := range c.Faults {
			if fi == i && i > 0 {
				p.FailWrites = 1
				_, _ = p.Put(0, src)
				p.FailWrites = 0
				recEdit.Class("a save that hits a write fault and is repeated")
			}
		}
		r, err := p.Put(0, src)
		if err != nil {
			return textOnly, nil
		}
		toks, terr := masked(g.Go)
		if terr != nil {
			panic("harness: " + terr.Error())
		}
		recEdit.Eval(1)
		// Whatever the classification, the text file the running program reads must now hold the
		// literals of this version.
		txt, rerr := p.TxtFile(0)
		if rerr != nil {
			return textOnly, &editError{msg: fmt.Sprintf("after version %d the development text file cannot be read: %v\n%s", i, rerr, src)}
		}
		if want := strings.Join(g.Output.Literals, "\n"); txt != want {
			return textOnly, &editError{msg: fmt.Sprintf("after version %d (GoUpdated=%v TextUpdated=%v) the development text file holds %q, the literals of this version are %q\n--- previous version:\n%s\n--- this version:\n%s", i, r.GoUpdated, r.TextUpdated, clip(txt), clip(want), prevSrc, src)}
		}
		prevSrc = src
		if i == 0 || r.GoUpdated {
			compiled, compiledSrc, compiledOut, compiledExprs = toks, src, g.Output, exprs
			recEdit.Class("recompile")
			continue
		}
		recEdit.Class("text-only")
		textOnly++
		edit := ""
		if i-1 < len(c.Edits) {
			edit = c.Edits[i-1]
		}
		if d := gonorm.Diff(compiled, toks); d != "" {
			// the listed finding: same number of literals and the same Go expressions (as the author
			// wrote them - not as templ recorded them), only arranged into different code
			known := len(compiledOut.Literals) == len(g.Output.Literals) && fmt.Sprint(compiledExprs) == fmt.Sprint(exprs)
			return textOnly, &editError{known: known, msg: fmt.Sprintf("edit %d (%s) was classified as needing no recompilation, but the generated Go differs from the compiled one beyond its text literals: %s\n--- compiled version:\n%s\n--- edited version:\n%s", i, edit, d, compiledSrc, src)}
		}
	}
	return textOnly, nil
}

func init() {
	ev.RegisterReplay("c16.devmode-equals-normal", func(raw json.RawMessage) error {
		var c DevCase
		if err := json.Unmarshal(raw, &c); err != nil {
			return err
		}
		return decideDev(c)
	})
	ev.RegisterReplay("c16.text-only-classification", func(raw json.RawMessage) error {
		var c EditCase
		if err := json.Unmarshal(raw, &c); err != nil {
			return err
		}
		return decideEdits(c)
	})
}

// KnownBlindToShape: generator.HasChanged compares only the generator options, the number of
// literals and the texts of the Go expressions. An edit that keeps all three but changes the shape
// of the generated code - reordering static text around an expression, moving an expression
// between a plain attribute and style / class / href / on*, or into / out of a JavaScript string
// literal - is classified as needing no recompilation although the compiled program differs.
const KnownBlindToShape = "c16-same-options-literal-count-and-expressions-but-different-code"

func TestPropEdits(t *testing.T) {
	o := options()
	o.BigLiterals = false
	o.MaxTemplates = 1
	o.Extras = false
	g := tgen.GenFile(o)
	rapid.Check(t, func(t *rapid.T) {
		t0 := g.Draw(t, "t0")
		t0.Latin1 = rapid.IntRange(0, 5).Draw(t, "latin1") == 0
		if rapid.IntRange(0, 2).Draw(t, "oddAttrName") == 0 {
			// attribute names in other letter case name the same attributes to a browser, and the
			// generator has special paths for class, style and on*
			if tgen.RenameExprAttr(t, t0, []string{"Class", "CLASS", "cLaSs", "Title", "DATA-X"}) {
				recEdit.Class("first version has an attribute name in upper or mixed case")
			}
		}
		c := EditCase{Versions: []*tgen.File{t0}}
		for i, n := 0, rapid.IntRange(1, 6).Draw(t, "nedits"); i < n; i++ {
			next, edit := tgen.Mutate(t, c.Versions[len(c.Versions)-1])
			if next == nil {
				continue
			}
			c.Versions = append(c.Versions, next)
			c.Edits = append(c.Edits, edit)
		}
		if len(c.Versions) < 2 {
			return
		}
		if rapid.IntRange(0, 3).Draw(t, "withFault") == 0 {
			c.Faults = []int{rapid.IntRange(1, len(c.Versions)-1).Draw(t, "faultAt")}
		}
		for _, e := range c.Edits {
			recEdit.Class("edit:" + strings.SplitN(e, ":", 2)[0])
		}
		n, err := decideEditsN(c)
		if err != nil {
			if ee, ok := err.(*editError); ok && ee.known && ev.IsOpenFinding("C16", KnownBlindToShape) {
				recEdit.Excluded(KnownBlindToShape)
				return
			}
			recEdit.Fail(t, c, "%v", err)
		}
		if n > 0 {
			last, _ := tgen.Print(c.Versions[len(c.Versions)-1], "P0")
			recEdit.NonTrivial(fmt.Sprint(c.Edits)+last, func() any { return map[string]any{"edits": c.Edits, "text_only_classifications": n} })
		}
	})
}

func clip(s string) string {
	if len(s) > 1200 {
		return s[:1200] + "..."
	}
	return s
}

func TestReplay(t *testing.T) {
	for _, r := range ev.RunReplays() {
		t.Logf("%+v", r)
	}
}
