package c16

import (
	"context"
	"encoding/json"
	"fmt"
	"io"
	"log/slog"
	"net"
	"net/http"
	"os"
	"path/filepath"
	"strings"
	"sync"
	"testing"
	"time"

	"github.com/a-h/templ/cmd/templ/generatecmd"
	"pgregory.net/rapid"

	"verif/ev"
)

// ---------- (c) a whole watch session: templ generate --watch --cmd over several files ----------

// SessionCase: a program of Files templates (each one Go expression and one static text) runs
// under generatecmd.Run with Watch and Command, exactly as `templ generate --watch --cmd "go run ."`
// runs it. Every burst saves some of the files with small gaps (what "save all", a formatter or a
// branch switch does); after every burst the running program must come to show what a fresh
// generate and rebuild of the directory shows.
type SessionCase struct {
	Files  int      `json:"files"`
	Bursts [][]Save `json:"bursts"`
}

type Save struct {
	File  int    `json:"file"`
	Kind  string `json:"kind"` // text: only static text changes; expr: the Go expression changes
	GapMs int    `json:"gap_ms"`
}

var recSession = ev.New("C16", "c16.watch-session",
	"a module of 2-3 templates (one Go expression and one static text each) and an HTTP server rendering all of them is run under generatecmd.Run with Watch and Command (`go run .`), the way `templ generate --watch --cmd` runs it; generated bursts of 1-3 saves (text-only or expression edits of different files, 0-60 ms apart; half of the bursts are an expression edit followed by a text edit of another file) are written to disk. "+
		"The page is requested every 10 ms throughout. Oracle: after every burst the running program's response becomes exactly what a fresh build of the directory renders (computed from the model) - a response that is still different after max(30 s, 6 x the session's own start-up time) with no further change is a stale program. "+
		"Non-trivial = a burst that mixes a text-only save with an expression save of another file; distinct by session")

func templSrc(i, e, t int) string {
	return fmt.Sprintf("package main\n\ntempl F%d() {\n\t<p id=\"f%d\">{ \"e%d-%d\" } t%d-%d</p>\n}\n", i, i, i, e, i, t)
}

func expectBody(exprs, texts []int) string {
	var sb strings.Builder
	for i := range exprs {
		fmt.Fprintf(&sb, "<p id=\"f%d\">e%d-%d t%d-%d</p>", i, i, exprs[i], i, texts[i])
	}
	return sb.String()
}

func freePort() int {
	l, err := net.Listen("tcp", "127.0.0.1:0")
	if err != nil {
		panic("harness: " + err.Error())
	}
	defer l.Close()
	return l.Addr().(*net.TCPAddr).Port
}

func fetch(url string) (string, error) {
	c := http.Client{Timeout: 5 * time.Second}
	resp, err := c.Get(url)
	if err != nil {
		return "", err
	}
	defer resp.Body.Close()
	b, err := io.ReadAll(resp.Body)
	if err != nil {
		return "", err
	}
	if resp.StatusCode != 200 {
		return string(b), fmt.Errorf("status %d", resp.StatusCode)
	}
	return string(b), nil
}

func waitBody(url, want string, d time.Duration) (last string, ok bool) {
	deadline := time.Now().Add(d)
	for {
		body, err := fetch(url)
		if err == nil {
			last = body
			if body == want {
				return last, true
			}
		} else {
			last = "(" + err.Error() + ")"
		}
		if time.Now().After(deadline) {
			return last, false
		}
		// the page is requested continuously, as a polled fragment or several open tabs do: the
		// program never gets a quiet moment between two renders
		time.Sleep(10 * time.Millisecond)
	}
}

func decideSession(c SessionCase) error {
	scratch := os.Getenv("VERIF_SCRATCH")
	if scratch == "" {
		scratch = os.TempDir()
	}
	dir, err := os.MkdirTemp(scratch, "session-")
	if err != nil {
		panic("harness: " + err.Error())
	}
	defer os.RemoveAll(dir)
	txtRoot := filepath.Join(dir, ".txt")
	_ = os.MkdirAll(txtRoot, 0o755)
	app := filepath.Join(dir, "app")
	_ = os.MkdirAll(app, 0o755)
	repo := os.Getenv("VERIF_REPO")
	if repo == "" {
		repo = "/repo"
	}
	// the child processes (go run, the program) inherit this process's environment
	for k, v := range map[string]string{"GOFLAGS": "-mod=mod", "GOPROXY": "off", "GOSUMDB": "off", "GOTOOLCHAIN": "local", "TEMPL_DEV_MODE_ROOT": txtRoot} {
		os.Setenv(k, v)
	}
	var render strings.Builder
	for i := 0; i < c.Files; i++ {
		fmt.Fprintf(&render, "\t\tif err := F%d().Render(r.Context(), w); err != nil {\n\t\t\thttp.Error(w, err.Error(), 500)\n\t\t\treturn\n\t\t}\n", i)
	}
	files := map[string]string{
		"go.mod": "module sessionprog\n\ngo 1.23.0\n\nrequire github.com/a-h/templ v0.0.0\n\nreplace github.com/a-h/templ => " + repo + "\n",
		"main.go": "package main\n\nimport (\n\t\"flag\"\n\t\"fmt\"\n\t\"net/http\"\n\t\"os\"\n)\n\nvar port = flag.Int(\"port\", 0, \"\")\n\nfunc main() {\n\tflag.Parse()\n\thttp.HandleFunc(\"/\", func(w http.ResponseWriter, r *http.Request) {\n" +
			render.String() + "\t})\n\tif err := http.ListenAndServe(fmt.Sprintf(\"127.0.0.1:%d\", *port), nil); err != nil {\n\t\tfmt.Println(err)\n\t\tos.Exit(1)\n\t}\n}\n",
	}
	if sum, err := os.ReadFile(filepath.Join(repo, "go.sum")); err == nil {
		files["go.sum"] = string(sum)
	}
	exprs, texts := make([]int, c.Files), make([]int, c.Files)
	for i := 0; i < c.Files; i++ {
		files[fmt.Sprintf("f%d.templ", i)] = templSrc(i, 0, 0)
	}
	for name, content := range files {
		if err := os.WriteFile(filepath.Join(app, name), []byte(content), 0o644); err != nil {
			panic("harness: " + err.Error())
		}
	}
	port := freePort()
	url := fmt.Sprintf("http://127.0.0.1:%d/", port)
	ctx, cancel := context.WithCancel(context.Background())
	var wg sync.WaitGroup
	wg.Add(1)
	go func() {
		defer wg.Done()
		log := slog.New(slog.NewTextHandler(io.Discard, nil))
		_ = generatecmd.Run(ctx, log, generatecmd.Arguments{Path: app, Watch: true, Command: fmt.Sprintf("go run . -port %d", port)})
	}()
	defer func() {
		cancel()
		wg.Wait()
	}()
	start := time.Now()
	if last, ok := waitBody(url, expectBody(exprs, texts), 180*time.Second); !ok {
		panic(fmt.Sprintf("harness: the program did not come up under templ generate --watch within 180s (last: %q)", clip(last)))
	}
	startup := time.Since(start)
	limit := max(30*time.Second, 6*startup)
	time.Sleep(300 * time.Millisecond) // let the start-up's own post-generation window close
	for bi, burst := range c.Bursts {
		for si, s := range burst {
			if si > 0 {
				time.Sleep(time.Duration(s.GapMs) * time.Millisecond)
			}
			if s.Kind == "expr" {
				exprs[s.File]++
			} else {
				texts[s.File]++
			}
			p := filepath.Join(app, fmt.Sprintf("f%d.templ", s.File))
			if err := os.WriteFile(p, []byte(templSrc(s.File, exprs[s.File], texts[s.File])), 0o644); err != nil {
				panic("harness: " + err.Error())
			}
		}
		want := expectBody(exprs, texts)
		if last, ok := waitBody(url, want, limit); !ok {
			return fmt.Errorf("burst %d %+v: %v after the last save the program running under --watch still shows %q; a fresh generate and build shows %q (start-up of this session took %v)",
				bi, burst, limit.Round(time.Second), clip(last), want, startup.Round(100*time.Millisecond))
		}
		time.Sleep(250 * time.Millisecond) // the next burst starts in a new post-generation window
	}
	return nil
}

func init() {
	ev.RegisterReplay("c16.watch-session", func(raw json.RawMessage) error {
		var c SessionCase
		if err := json.Unmarshal(raw, &c); err != nil {
			return err
		}
		return decideSession(c)
	})
}

func TestPropSessions(t *testing.T) {
	rapid.Check(t, func(t *rapid.T) {
		c := SessionCase{Files: rapid.IntRange(2, 3).Draw(t, "files")}
		mixed := false
		for i, n := 0, rapid.IntRange(2, 5).Draw(t, "bursts"); i < n; i++ {
			var b []Save
			if rapid.Bool().Draw(t, "goThenText") {
				f := rapid.IntRange(0, c.Files-1).Draw(t, "exprFile")
				g := (f + 1 + rapid.IntRange(0, c.Files-2).Draw(t, "textFile")) % c.Files
				b = []Save{{File: f, Kind: "expr"}, {File: g, Kind: "text", GapMs: rapid.SampledFrom([]int{0, 5, 20, 40, 60}).Draw(t, "gap")}}
				mixed = true
			} else {
				for j, m := 0, rapid.IntRange(1, 3).Draw(t, "saves"); j < m; j++ {
					b = append(b, Save{File: rapid.IntRange(0, c.Files-1).Draw(t, "file"), Kind: rapid.SampledFrom([]string{"text", "expr"}).Draw(t, "kind"),
						GapMs: rapid.SampledFrom([]int{0, 5, 20, 40, 60}).Draw(t, "gap")})
				}
			}
			c.Bursts = append(c.Bursts, b)
		}
		// every session also has bursts that change static text only: the program keeps running and
		// has to notice the new text file by itself
		c.Bursts = append([][]Save{{{File: 0, Kind: "text"}}}, c.Bursts...)
		c.Bursts = append(c.Bursts, []Save{{File: c.Files - 1, Kind: "text"}, {File: 0, Kind: "text", GapMs: 5}})
		recSession.Eval(len(c.Bursts))
		if mixed {
			recSession.NonTrivial(fmt.Sprint(c), func() any { return c })
		}
		if err := decideSession(c); err != nil {
			recSession.Fail(t, c, "%v", err)
		}
	})
}
