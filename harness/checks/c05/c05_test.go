package c05

import (
	"bytes"
	"context"
	"encoding/json"
	"fmt"
	"os"
	"regexp"
	"strings"
	"testing"

	"github.com/a-h/templ"
	"github.com/a-h/templ/safehtml"
	"pgregory.net/rapid"

	"verif/ev"
	"verif/fx"
	"verif/oracle/csstok"
	"verif/oracle/htmltok"
	"verif/oracle/urlscheme"
	"verif/sgen"
)

func TestMain(m *testing.M) {
	code := m.Run()
	ev.FlushAll()
	os.Exit(code)
}

type Case struct {
	Name  ev.QStr `json:"name"`
	Value ev.QStr `json:"value"`
}

var rec = ev.New("C05", "c05.containment",
	"(property, value) pairs go through safehtml.SanitizeCSS / templ.SanitizeCSS and through compiled fixtures (css component rendered into <style>, style={map}, style={templ.KV}, style={[]any}); "+
		"the emitted text embedded as `.c{N:V;}.z{color:blue}` (and the decoded style attribute + `color:blue`) is parsed by an independent CSS Syntax 3 tokenizer/parser: exactly the author's rules and one declaration named N, "+
		"no top-level ';', block, comment, bad-string, bad-url, at-keyword, non-url function, url with a scheme outside http/https/mailto, no `</style`; N and V are the input (N lower-cased) or the innocuous constants. "+
		"Exhaustive: value sequences of <=L tokens (L=3 quick, 4 thorough) over a 33-token CSS-adversarial alphabet (incl. the Unicode spaces U+0085 / U+00A0) x property classes; random: longer values, url()/quoted shapes, generated names. "+
		"Non-trivial = value or name contains a CSS-significant character; enumerated cases distinct by construction, random by (name,value)")

var ownIdent = regexp.MustCompile(`^[-a-zA-Z]+$`)

const (
	innocuousName  = "zTemplUnsafeCSSPropertyName"
	innocuousValue = "zTemplUnsafeCSSPropertyValue"
)

// contain decides whether emitted name n and value v stay inside their declaration.
func contain(n, v string) error {
	sheet := ".c{" + n + ":" + v + ";}.z{color:blue}"
	rules := csstok.ParseRules(sheet)
	if len(rules) != 2 {
		return fmt.Errorf("%q parses to %d rules, want 2", sheet, len(rules))
	}
	for i, r := range rules {
		if r.At || !r.HasBlock {
			return fmt.Errorf("%q: rule %d is not a style rule", sheet, i)
		}
	}
	if p := strings.TrimSpace(csstok.Text(rules[0].Prelude)); p != ".c" {
		return fmt.Errorf("%q: first selector is %q", sheet, p)
	}
	if p, b := strings.TrimSpace(csstok.Text(rules[1].Prelude)), csstok.Text(rules[1].Block); p != ".z" || b != "color:blue" {
		return fmt.Errorf("%q: the following rule became %q{%q}", sheet, p, b)
	}
	return containDecls(rules[0].Block, n, sheet, 1)
}

// containDecls checks a block holding the declaration for n followed by `extra-1` sentinel
// declarations.
func containDecls(block []csstok.Component, n, text string, wantDecls int) error {
	semis := 0
	for _, c := range block {
		if !c.IsBlock && c.Tok.Kind == csstok.Semicolon {
			semis++
		}
	}
	if semis != 1 {
		return fmt.Errorf("%q: %d top-level ';' in the declaration block, want exactly the one terminating the declaration", text, semis)
	}
	dl := csstok.ParseDeclarations(block)
	var value []csstok.Component
	switch {
	case len(dl.Decls) == wantDecls && dl.AtRules == 0 && dl.Errors == 0:
		if dl.Decls[0].Name != n {
			return fmt.Errorf("%q: declaration name %q, want %q", text, dl.Decls[0].Name, n)
		}
		value = dl.Decls[0].Value
	case len(dl.Decls) == wantDecls-1 && dl.AtRules == 0 && dl.Errors == 1:
		// The emitted text is not a well-formed declaration (e.g. the name "-"): a browser drops it
		// up to the terminating ';'. Nothing else is affected as long as what is dropped holds none
		// of the forbidden constructs.
		value = block
	default:
		return fmt.Errorf("%q: %d declarations, %d at-rules, %d malformed runs; want %d declaration(s)", text, len(dl.Decls), dl.AtRules, dl.Errors, wantDecls)
	}
	var err error
	csstok.Walk(value, func(c csstok.Component) {
		if err != nil {
			return
		}
		switch {
		case c.IsBlock && c.Block == csstok.LBrace:
			err = fmt.Errorf("%q: value contains a {} block", text)
		case c.IsBlock && c.Block == csstok.Function:
			if !strings.EqualFold(c.Tok.Value, "url") {
				err = fmt.Errorf("%q: value calls function %q", text, c.Tok.Value)
				return
			}
			for _, a := range c.Children {
				if !a.IsBlock && a.Tok.Kind == csstok.String && !urlscheme.Accept(a.Tok.Value, "http", "https", "mailto") {
					err = fmt.Errorf("%q: url(%q) has a forbidden scheme", text, a.Tok.Value)
				}
			}
		case c.IsBlock:
		case c.Tok.Kind == csstok.Comment:
			err = fmt.Errorf("%q: value contains a comment", text)
		case c.Tok.Kind == csstok.BadString, c.Tok.Kind == csstok.BadURL:
			err = fmt.Errorf("%q: value contains a %s token", text, c.Tok.Kind)
		case c.Tok.Kind == csstok.AtKeyword:
			err = fmt.Errorf("%q: value contains at-keyword @%s", text, c.Tok.Value)
		case c.Tok.Kind == csstok.URL:
			if !urlscheme.Accept(c.Tok.Value, "http", "https", "mailto") {
				err = fmt.Errorf("%q: url(%s) has a forbidden scheme", text, c.Tok.Value)
			}
		}
	})
	if err != nil {
		return err
	}
	if strings.Contains(strings.ToLower(text), "</style") {
		return fmt.Errorf("%q contains </style", text)
	}
	return nil
}

// decideFn: the sanitiser functions.
func decideFn(c Case) (n, v string, err error) {
	name, value := string(c.Name), string(c.Value)
	n, v = safehtml.SanitizeCSS(name, value)
	if got, want := string(templ.SanitizeCSS(name, value)), n+":"+v+";"; got != want {
		return n, v, fmt.Errorf("templ.SanitizeCSS(%q,%q)=%q but safehtml gives %q", name, value, got, want)
	}
	if n != innocuousName && !(ownIdent.MatchString(name) && n == strings.ToLower(name)) {
		return n, v, fmt.Errorf("property name %q emitted as %q: neither the lower-cased identifier nor the innocuous name", name, n)
	}
	if v != innocuousValue && v != value {
		return n, v, fmt.Errorf("value %q emitted as %q: neither the input nor the innocuous value", value, v)
	}
	if n == innocuousName && v != innocuousValue {
		return n, v, fmt.Errorf("innocuous name with value %q", v)
	}
	return n, v, contain(n, v)
}

var cssKinds = map[string]bool{"background-image": true, "font-family": true, "display": true, "color": true, "margin": true}

func renderTo(c templ.Component) ([]htmltok.Tok, string, error) {
	var buf bytes.Buffer
	if err := c.Render(context.Background(), &buf); err != nil {
		return nil, "", err
	}
	toks, err := htmltok.Tokens(buf.Bytes())
	return toks, buf.String(), err
}

// decideRendered: the compiled sinks.
func decideRendered(c Case) error {
	name, value := string(c.Name), string(c.Value)
	n, v := safehtml.SanitizeCSS(name, value)
	// css component (the property name is fixed by the template author)
	kind := name
	if !cssKinds[kind] {
		kind = "two"
	}
	toks, out, err := renderTo(fx.CSSComponent(kind, value))
	if err != nil {
		return fmt.Errorf("css component render: %v", err)
	}
	if len(toks) != 6 || toks[0].Type != "start" || toks[0].Name != "style" || toks[1].Type != "text" || toks[2].Type != "end" || toks[2].Name != "style" ||
		toks[3].Type != "start" || toks[3].Name != "div" || len(toks[3].Attrs) != 1 || toks[3].Attrs[0].Name != "class" || toks[5].Name != "div" {
		return fmt.Errorf("css component: tokenizer does not see <style>css</style><div class>t</div>: %q", out)
	}
	css := toks[1].Data
	rules := csstok.ParseRules(css + ".z{color:blue}")
	if len(rules) != 2 || rules[0].At || !rules[0].HasBlock {
		return fmt.Errorf("css component: %q is not exactly one rule", css)
	}
	if sel := csstok.Text(rules[0].Prelude); sel != "."+toks[3].Attrs[0].Val {
		return fmt.Errorf("css component: selector %q vs class %q", sel, toks[3].Attrs[0].Val)
	}
	if p, b := csstok.Text(rules[1].Prelude), csstok.Text(rules[1].Block); p != ".z" || b != "color:blue" {
		return fmt.Errorf("css component: the following rule became %q{%q}", p, b)
	}
	dl := csstok.ParseDeclarations(rules[0].Block)
	wantNames := []string{kind}
	if kind == "two" {
		wantNames = []string{"width", "height", "color"}
	}
	if len(dl.Decls) != len(wantNames) || dl.Errors != 0 || dl.AtRules != 0 {
		return fmt.Errorf("css component: %q has %d declarations (%d malformed, %d at-rules), want %v", css, len(dl.Decls), dl.Errors, dl.AtRules, wantNames)
	}
	for i, d := range dl.Decls {
		if d.Name != wantNames[i] {
			return fmt.Errorf("css component: %q declaration %d is %q, want %q", css, i, d.Name, wantNames[i])
		}
		if d.Name == "height" {
			continue
		}
		_, wv := safehtml.SanitizeCSS(d.Name, value)
		if got := strings.TrimSpace(csstok.Text(d.Value)); got != strings.TrimSpace(wv) && got != innocuousValue {
			// compare modulo the tokenizer's preprocessing only when the value is plain
			if err := contain(d.Name, got); err != nil {
				return fmt.Errorf("css component: %v", err)
			}
		}
		if err := contain(d.Name, csstok.Text(d.Value)); err != nil {
			return fmt.Errorf("css component: %v", err)
		}
	}
	// style attribute forms
	for _, f := range []struct {
		label string
		c     templ.Component
		pre   int // declarations before ours
		post  int
	}{
		{"style={map}", fx.StyleAttrMap(map[string]string{name: value}), 0, 0},
		{"style={KV}", fx.StyleAttrKV(name, value), 0, 0},
		{"style={[]any}", fx.StyleAttrSlice(name, value), 1, 1},
	} {
		toks, out, err := renderTo(f.c)
		if err != nil {
			return fmt.Errorf("%s render: %v", f.label, err)
		}
		if len(toks) != 3 || toks[0].Type != "start" || toks[0].Name != "div" || len(toks[0].Attrs) != 2 || toks[0].Attrs[0].Name != "style" ||
			toks[0].Attrs[1].Name != "id" || toks[0].Attrs[1].Val != "after" || toks[1].Data != "t" {
			return fmt.Errorf("%s: tokenizer does not see <div style id=after>t</div>: %q", f.label, out)
		}
		d := toks[0].Attrs[0].Val
		dl := csstok.ParseDeclarationList(d + "z-index:7")
		var wantNames []string
		if f.pre == 1 {
			wantNames = append(wantNames, "margin")
		}
		ours := len(wantNames)
		wantNames = append(wantNames, n)
		if f.post == 1 {
			wantNames = append(wantNames, "color")
		}
		wantNames = append(wantNames, "z-index")
		malformed := false
		if dl.Errors == 1 && len(dl.Decls) == len(wantNames)-1 {
			// our declaration is not well-formed and is dropped by the browser
			wantNames = append(wantNames[:ours:ours], wantNames[ours+1:]...)
			malformed = true
		}
		var gotNames []string
		for _, x := range dl.Decls {
			gotNames = append(gotNames, x.Name)
		}
		if fmt.Sprint(gotNames) != fmt.Sprint(wantNames) || dl.AtRules != 0 || (dl.Errors != 0 && !malformed) {
			return fmt.Errorf("%s: browser sees style=%q: declarations %q (%d malformed, %d at-rules), want %q; output %q", f.label, d, gotNames, dl.Errors, dl.AtRules, wantNames, out)
		}
		last := dl.Decls[len(dl.Decls)-1]
		if csstok.Text(last.Value) != "7" {
			return fmt.Errorf("%s: style=%q: the following declaration became %q:%q", f.label, d, last.Name, csstok.Text(last.Value))
		}
		if f.post == 1 {
			p := dl.Decls[len(dl.Decls)-2]
			if csstok.Text(p.Value) != "blue" {
				return fmt.Errorf("%s: style=%q: the author's next declaration became %q:%q", f.label, d, p.Name, csstok.Text(p.Value))
			}
		}
		if !malformed {
			if err := contain(n, csstok.Text(dl.Decls[ours].Value)); err != nil {
				return fmt.Errorf("%s: style=%q: %v", f.label, d, err)
			}
		}
	}
	_ = v
	return nil
}

func decide(c Case, rendered bool) (err error) {
	defer func() {
		if x := recover(); x != nil {
			err = fmt.Errorf("the sanitiser panics: %v", x)
		}
	}()
	if _, _, err := decideFn(c); err != nil {
		return err
	}
	if rendered {
		return decideRendered(c)
	}
	return nil
}

func init() {
	ev.RegisterReplay("c05.containment", func(raw json.RawMessage) error {
		var c Case
		if err := json.Unmarshal(raw, &c); err != nil {
			return err
		}
		return decide(c, true)
	})
}

func nt(c Case) bool {
	return strings.ContainsAny(string(c.Value)+string(c.Name), ";:{}()\"'\\/*<>,@!\n")
}

var valueTokens = []string{";", ":", "{", "}", "(", ")", "\"", "'", "\\", "/", "*", "/*", "*/", "<", ">", ",", "@", "!important", "a", "1px", " ", "\n",
	"url(", "url(\"", "url(a)", "url()", "expression(", "http://h/p", "javascript:x", "</style>", "-->", "\u0085", "\u00a0",
	// characters whose lower-case form has another byte length (KELVIN SIGN 3->1, OHM SIGN, ANGSTROM SIGN and capital sharp s 3->2, dotted capital I and stroked A 2->3):
	// offsets computed in a case-folded copy do not fit the original
	"\u212a", "\u2126", "\u212b", "\u1e9e", "\u0130", "\u023a",
	// a URL with a fragment, and what closes it
	"url(\"/a#", "\")", "url('/a#", "')", "#", "\r", "\f"}

var propNames = []string{"background-image", "font-family", "display", "color", "width", "z-index", "margin", "-webkit-x", "COLOR", "Background-Image",
	"co lor", "a:b", "x;y", "color}", "", "color/**/", "font-family ",
	// custom properties
	"--x", "--x;y", "--x}", "--x:y", "--x{", "--x/**/", "--x y", "--_a</style>", "--1\n"}

// knownClass: a failing case that falls into a class listed in known_findings.json.
func knownClass(c Case, err error) string {
	return ""
}

func check(t ev.Failer, c Case, rendered bool) {
	if err := decide(c, rendered); err != nil {
		if k := knownClass(c, err); k != "" && ev.IsOpenFinding("C05", k) {
			rec.Excluded(k)
			return
		}
		rec.Fail(t, c, "%v", err)
	}
}

func TestPropExhaustive(t *testing.T) {
	maxLen := ev.Pick(3, 4)
	shard, shards := ev.Shard()
	var n, ntn int64
	var walk func(prefix string, depth int)
	walk = func(prefix string, depth int) {
		for _, name := range propNames {
			c := Case{Name: ev.QStr(name), Value: ev.QStr(prefix)}
			n++
			if nt(c) {
				ntn++
				if ntn%300000 == 1 {
					rec.Sample(c)
				}
			}
			check(t, c, n%53 == 0)
		}
		if depth == maxLen {
			return
		}
		for _, tok := range valueTokens {
			walk(prefix+tok, depth+1)
		}
	}
	if shard == 0 {
		walk("", maxLen)
	}
	for i, tok := range valueTokens {
		if i%shards == shard {
			walk(tok, 1)
		}
	}
	rec.Eval(int(n))
	rec.Enumerated(ntn)
	rec.ClassN("exhaustive", int(n))
	rec.Set("exhaustive", true)
	rec.Set("exhaustive_space", fmt.Sprintf("values: all sequences of <=%d tokens over %q; names: %q", maxLen, valueTokens, propNames))
}

var schemes = []string{"http", "https", "mailto", "javascript", "JAVASCRIPT", "data", "vbscript", "ftp", "file", " javascript", "java\tscript", "jav&#x09;ascript", ""}

var genShaped = rapid.Custom(func(t *rapid.T) string {
	tail := rapid.SampledFrom([]string{"", "", ";x:y", ";x:url(javascript:x)", "}", "} .q{x:y", ",url(x)", ", url(javascript:y)", " a", "/**/", "\\", "\n", ")", "(", "@import"}).Draw(t, "tail")
	switch rapid.IntRange(0, 5).Draw(t, "shape") {
	case 0: // url(<scheme>:<body>)<tail>
		q := rapid.SampledFrom([]string{"", "\"", "'"}).Draw(t, "q")
		sc := rapid.SampledFrom(schemes).Draw(t, "scheme")
		body := sgen.FromTokens(valueTokens, 3).Draw(t, "body")
		sep := ":"
		if sc == "" {
			sep = ""
		}
		return "url(" + q + sc + sep + body + q + ")" + tail
	case 1: // quoted font names with a payload in the middle
		payload := sgen.FromTokens(append(valueTokens, "\\\"", "\\", "\"", "</STYLE >", "\r", "\f"), 4).Draw(t, "payload")
		return "\"" + payload + "\"" + tail
	case 2: // comma lists
		n := rapid.IntRange(1, 4).Draw(t, "n")
		parts := make([]string, n)
		for i := range parts {
			parts[i] = rapid.SampledFrom([]string{"Arial", "sans-serif", "\"Times New Roman\"", "\"a;b\"", "\"a\\\"", "url(x)", "url(\"http://h/?a=1&b=2\")", "a b", "\"", "'x'",
				"url(/a.png)", "url()", "url('a.png')", "/x;color:red", ";", "/*", "/x}b{c:d", "#a:b", "?x:y", "x;y:z", "@import", "a{}", "url(javascript:x)", "*/"}).Draw(t, "part")
		}
		return strings.Join(parts, rapid.SampledFrom([]string{",", ", ", " ,"}).Draw(t, "sep")) + tail
	case 3:
		return sgen.FromTokens(valueTokens, 10).Draw(t, "long")
	case 4:
		return sgen.HTMLString().Draw(t, "html")
	default:
		return rapid.SampledFrom([]string{"red", "#fff", "10px 20px", "1.5em", "100%", "bold", "rgb(1,2,3)", "calc(1px + 2px)", "a/b", "a*b", "1 !important", "-1px", "+.5e3"}).Draw(t, "benign") + tail
	}
})

var genName = rapid.OneOf(
	rapid.SampledFrom(propNames),
	rapid.SampledFrom([]string{"background-image", "font-family", "display", "color", "margin"}),
	sgen.FromTokens([]string{"a", "B", "-", ":", ";", " ", "{", "}", "color", "/*", "\\", "\n", "é", "0", "_"}, 4),
)

func TestPropRandom(t *testing.T) {
	rapid.Check(t, func(t *rapid.T) {
		c := Case{Name: ev.QStr(genName.Draw(t, "name")), Value: ev.QStr(genShaped.Draw(t, "value"))}
		rec.Eval(1)
		rec.Class("random")
		if nt(c) {
			rec.NonTrivial(string(c.Name)+"\x00"+string(c.Value), func() any { return c })
		}
		check(t, c, true)
	})
}

func TestReplay(t *testing.T) {
	for _, r := range ev.RunReplays() {
		t.Logf("%+v", r)
	}
}
