package c20

import (
	"bytes"
	"compress/gzip"
	"compress/zlib"
	"encoding/json"
	"fmt"
	"io"
	"log/slog"
	"net/http"
	"net/http/httptest"
	"net/url"
	"os"
	"runtime"
	"strconv"
	"strings"
	"sync"
	"sync/atomic"
	"testing"
	"time"

	"github.com/a-h/templ/cmd/templ/generatecmd/proxy"
	"github.com/andybalholm/brotli"
	"golang.org/x/net/html"
	"pgregory.net/rapid"

	"verif/ev"
)

func TestMain(m *testing.M) {
	setup()
	code := m.Run()
	ev.FlushAll()
	os.Exit(code)
}

// Case is one exchange through the proxy.
type Case struct {
	Doc         string `json:"doc"`          // the backend's document (HTML text, or any text for non-HTML types)
	Repeat      int    `json:"repeat"`       // the block marked <!--REP--> in Doc is repeated this many times (size without huge replay files)
	ContentType string `json:"content_type"` // backend's Content-Type
	Encoding    string `json:"encoding"`     // "", gzip, br, deflate, zstd, x-junk
	CSP         string `json:"csp"`          // backend's Content-Security-Policy ("" = none)
	HX          bool   `json:"hx"`           // request carries HX-Request: true
	SkipMark    bool   `json:"skip_mark"`    // backend sets templ-skip-modify: true
	AcceptEnc   bool   `json:"accept_enc"`   // client sends Accept-Encoding itself (as browsers do)
	Chunked     bool   `json:"chunked"`      // backend flushes early (no Content-Length from the backend)
	// DropFirst: the backend closes the connection without answering for the first N attempts of
	// this exchange (the application is just restarting); the proxy tries again.
	DropFirst int `json:"drop_first,omitempty"`
}

var rec = ev.New("C20", "c20.proxy",
	"generated exchanges over real loopback HTTP (backend httptest.Server -> proxy.New handler -> client without transparent decompression): well-formed HTML documents from a content-model-respecting grammar (doctype?, html/head/body explicit or omitted, nested block/inline content, existing scripts/styles/comments, attributes, entities, non-ASCII; up to several MiB) "+
		"x encodings {none, gzip, br, deflate, zstd, junk} x content types {text/html, +charset, json, plain, css} x CSP shapes x {plain, HX-Request, skip marker} x {Content-Length, chunked} x {fetched once, the same page fetched again with another nonce or encoding} x {answered at once, backend closing the connection without an answer for the first 1-3 attempts}. "+
		"Oracle: for HTML in identity/gzip/br the body decoded per the received Content-Encoding must parse to the original DOM plus exactly one <script src=/_templ/reload/script.js [nonce]> as last child of body, nonce = first nonce of script-src, Content-Length = bytes received; everything else byte-identical with unchanged headers. "+
		"Non-trivial = encoded body, CSP present, body > 64 KiB, or a pass-through class; distinct by exchange")

func (c Case) doc() string {
	if c.Repeat <= 1 || !strings.Contains(c.Doc, "<!--REP-->") {
		return strings.ReplaceAll(c.Doc, "<!--REP-->", "")
	}
	parts := strings.SplitN(c.Doc, "<!--REP-->", 3)
	if len(parts) != 3 {
		return strings.ReplaceAll(c.Doc, "<!--REP-->", "")
	}
	return parts[0] + strings.Repeat(parts[1], c.Repeat) + parts[2]
}

func encode(enc string, b []byte) []byte {
	var buf bytes.Buffer
	switch enc {
	case "gzip":
		w := gzip.NewWriter(&buf)
		w.Write(b)
		w.Close()
	case "br":
		w := brotli.NewWriter(&buf)
		w.Write(b)
		w.Close()
	case "deflate":
		w := zlib.NewWriter(&buf)
		w.Write(b)
		w.Close()
	case "zstd", "x-junk":
		// bytes that are certainly not HTML: a fake frame header followed by the data xor 0xA5
		buf.Write([]byte{0x28, 0xb5, 0x2f, 0xfd})
		for _, x := range b {
			buf.WriteByte(x ^ 0xA5)
		}
	default:
		return b
	}
	return buf.Bytes()
}

func decode(enc string, b []byte) ([]byte, error) {
	switch enc {
	case "":
		return b, nil
	case "gzip":
		r, err := gzip.NewReader(bytes.NewReader(b))
		if err != nil {
			return nil, err
		}
		return io.ReadAll(r)
	case "br":
		return io.ReadAll(brotli.NewReader(bytes.NewReader(b)))
	}
	return nil, fmt.Errorf("client cannot decode %q", enc)
}

var (
	cases    sync.Map // key -> Case
	attempts sync.Map // key -> *int32, attempts seen by the backend
	proxyURL string
	client   = &http.Client{Transport: &http.Transport{DisableCompression: true, MaxIdleConnsPerHost: 16}}
	keyMu    sync.Mutex
	keyN     int
)

func setup() {
	backend := httptest.NewServer(http.HandlerFunc(func(w http.ResponseWriter, r *http.Request) {
		v, ok := cases.Load(strings.TrimPrefix(r.URL.Path, "/"))
		if !ok {
			http.NotFound(w, r)
			return
		}
		c := v.(Case)
		if c.DropFirst > 0 {
			key := strings.TrimPrefix(r.URL.Path, "/")
			n, _ := attempts.LoadOrStore(key, new(int32))
			if atomic.AddInt32(n.(*int32), 1) <= int32(c.DropFirst) {
				if hj, ok := w.(http.Hijacker); ok {
					if conn, _, err := hj.Hijack(); err == nil {
						conn.Close()
						return
					}
				}
			}
		}
		body := encode(c.Encoding, []byte(c.doc()))
		w.Header().Set("Content-Type", c.ContentType)
		if c.Encoding != "" {
			w.Header().Set("Content-Encoding", c.Encoding)
		}
		if c.CSP != "" {
			w.Header().Set("Content-Security-Policy", c.CSP)
		}
		if c.SkipMark {
			w.Header().Set("templ-skip-modify", "true")
		}
		w.Header().Set("X-Backend", "yes")
		if c.Chunked {
			half := len(body) / 2
			w.Write(body[:half])
			w.(http.Flusher).Flush()
			w.Write(body[half:])
			return
		}
		w.Header().Set("Content-Length", strconv.Itoa(len(body)))
		w.Write(body)
	}))
	u, _ := url.Parse(backend.URL)
	h := proxy.New(slog.New(slog.NewTextHandler(io.Discard, nil)), "127.0.0.1", 0, u)
	p := httptest.NewServer(h)
	proxyURL = p.URL
}

func nonceOf(csp string) string {
	// first nonce source of the script-src directive (own reading of CSP syntax)
	for _, d := range strings.Split(csp, ";") {
		f := strings.Fields(d)
		if len(f) < 2 || !strings.EqualFold(f[0], "script-src") {
			continue
		}
		for _, src := range f[1:] {
			if strings.HasPrefix(src, "'nonce-") && strings.HasSuffix(src, "'") {
				return src[7 : len(src)-1]
			}
		}
		return ""
	}
	return ""
}

func sameTree(a, b *html.Node, path string) error {
	if a.Type != b.Type || a.Data != b.Data || a.Namespace != b.Namespace {
		return fmt.Errorf("%s: node %d %q vs %d %q", path, a.Type, clip(a.Data), b.Type, clip(b.Data))
	}
	if len(a.Attr) != len(b.Attr) {
		return fmt.Errorf("%s <%s>: attributes %v vs %v", path, a.Data, a.Attr, b.Attr)
	}
	for i := range a.Attr {
		if a.Attr[i] != b.Attr[i] {
			return fmt.Errorf("%s <%s>: attribute %v vs %v", path, a.Data, a.Attr[i], b.Attr[i])
		}
	}
	ca, cb := a.FirstChild, b.FirstChild
	for i := 0; ca != nil || cb != nil; i++ {
		if ca == nil || cb == nil {
			return fmt.Errorf("%s <%s>: child count differs at %d", path, a.Data, i)
		}
		if err := sameTree(ca, cb, fmt.Sprintf("%s/%s[%d]", path, a.Data, i)); err != nil {
			return err
		}
		ca, cb = ca.NextSibling, cb.NextSibling
	}
	return nil
}

func firstBody(n *html.Node) *html.Node {
	if n.Type == html.ElementNode && n.Data == "body" {
		return n
	}
	for c := n.FirstChild; c != nil; c = c.NextSibling {
		if b := firstBody(c); b != nil {
			return b
		}
	}
	return nil
}

func clip(s string) string {
	if len(s) > 100 {
		return s[:80] + fmt.Sprintf("...(%d bytes)", len(s))
	}
	return s
}

func (c Case) shouldModify() bool {
	return strings.HasPrefix(c.ContentType, "text/html") && !c.HX && !c.SkipMark && (c.Encoding == "" || c.Encoding == "gzip" || c.Encoding == "br")
}

func decide(c Case) error { return decideOpts(c, false) }

// decideOpts performs one exchange; slow makes the client read the body in small pieces with
// pauses, so that the response stays in flight while other exchanges run.
func decideOpts(c Case, slow bool) error {
	keyMu.Lock()
	keyN++
	key := fmt.Sprintf("k%d", keyN)
	keyMu.Unlock()
	cases.Store(key, c)
	defer cases.Delete(key)
	req, _ := http.NewRequest("GET", proxyURL+"/"+key, nil)
	if c.HX {
		req.Header.Set("HX-Request", "true")
	}
	if c.AcceptEnc {
		req.Header.Set("Accept-Encoding", "gzip, deflate, br, zstd")
	}
	res, err := client.Do(req)
	if err != nil {
		return fmt.Errorf("harness: request failed: %v", err)
	}
	var got []byte
	if slow {
		buf := make([]byte, 4096)
		for {
			n, rerr := res.Body.Read(buf)
			got = append(got, buf[:n]...)
			if rerr != nil {
				if rerr != io.EOF {
					err = rerr
				}
				break
			}
			if len(got)%(64*1024) < 4096 {
				time.Sleep(200 * time.Microsecond)
			} else {
				runtime.Gosched()
			}
		}
	} else {
		got, err = io.ReadAll(res.Body)
	}
	res.Body.Close()
	if err != nil {
		return fmt.Errorf("reading the proxied body failed (Content-Length %q): %v", res.Header.Get("Content-Length"), err)
	}
	if res.StatusCode != 200 || res.Header.Get("X-Backend") != "yes" {
		return fmt.Errorf("harness: status %d", res.StatusCode)
	}
	orig := []byte(c.doc())
	sent := encode(c.Encoding, orig)
	gotEnc := res.Header.Get("Content-Encoding")
	if cl := res.Header.Get("Content-Length"); cl != "" && cl != strconv.Itoa(len(got)) {
		return fmt.Errorf("Content-Length header %s but %d bytes received", cl, len(got))
	}
	if !c.shouldModify() {
		// The proxy's own HTTP client may transparently gunzip when the browser sent no
		// Accept-Encoding; then the header is gone and the bytes are the decoded ones: still the
		// backend's document, unmodified.
		if c.Encoding == "gzip" && !c.AcceptEnc && gotEnc == "" {
			if !bytes.Equal(got, orig) {
				return fmt.Errorf("pass-through (%s): transparently decoded body differs from the backend's document: %q", c.class(), clip(string(got)))
			}
			return nil
		}
		if gotEnc != c.Encoding {
			return fmt.Errorf("pass-through (%s): Content-Encoding %q became %q", c.class(), c.Encoding, gotEnc)
		}
		if !bytes.Equal(got, sent) {
			return fmt.Errorf("pass-through (%s): body changed: %d bytes sent, %d received; received starts %q", c.class(), len(sent), len(got), clip(string(got)))
		}
		if res.Header.Get("Content-Type") != c.ContentType {
			return fmt.Errorf("pass-through: Content-Type %q became %q", c.ContentType, res.Header.Get("Content-Type"))
		}
		return nil
	}
	if res.Header.Get("Content-Length") == "" {
		return fmt.Errorf("modified response without Content-Length")
	}
	if gotEnc != c.Encoding && !(c.Encoding == "gzip" && !c.AcceptEnc && gotEnc == "") {
		return fmt.Errorf("Content-Encoding %q became %q", c.Encoding, gotEnc)
	}
	dec, err := decode(gotEnc, got)
	if err != nil {
		return fmt.Errorf("body does not decode as its Content-Encoding %q says: %v", gotEnc, err)
	}
	want, err := html.Parse(bytes.NewReader(orig))
	if err != nil {
		return fmt.Errorf("harness: %v", err)
	}
	body := firstBody(want)
	if body == nil {
		return fmt.Errorf("harness: no body in the parsed original")
	}
	script := &html.Node{Type: html.ElementNode, Data: "script", Attr: []html.Attribute{{Key: "src", Val: "/_templ/reload/script.js"}}}
	if n := nonceOf(c.CSP); n != "" {
		script.Attr = append(script.Attr, html.Attribute{Key: "nonce", Val: n})
	}
	body.AppendChild(script)
	gotTree, err := html.Parse(bytes.NewReader(dec))
	if err != nil {
		return fmt.Errorf("result does not parse: %v", err)
	}
	if err := sameTree(want, gotTree, ""); err != nil {
		return fmt.Errorf("the decoded document is not the original plus one reload script at the end of body: %v; result ends %q", err, tail(string(dec)))
	}
	return nil
}

func tail(s string) string {
	if len(s) > 160 {
		return "..." + s[len(s)-160:]
	}
	return s
}

func (c Case) class() string {
	switch {
	case !strings.HasPrefix(c.ContentType, "text/html"):
		return "non-html"
	case c.HX:
		return "htmx"
	case c.SkipMark:
		return "skip-marker"
	case c.Encoding != "" && c.Encoding != "gzip" && c.Encoding != "br":
		return "unsupported-encoding"
	case c.Encoding != "":
		return "html-" + c.Encoding
	}
	return "html-identity"
}

// ---------- document grammar ----------

var texts = []string{"hello", "a b", "é ü 世界 😀", "&amp; &lt;b&gt; &#233; &quot;", "x", "1 < 2", "tab\there", "line\nbreak", "  padded  ", "'q' \"dq\"", "&nbsp;", "{{ not templ }}"}
var attrVals = []string{"v", "a b", "é", "x&amp;y", "&quot;q&quot;", "'", "1", ""}

func genAttrs(t *rapid.T) string {
	n := rapid.IntRange(0, 2).Draw(t, "nattr")
	var sb strings.Builder
	names := []string{"id", "class", "data-x", "title", "lang"}
	for i := 0; i < n; i++ {
		fmt.Fprintf(&sb, ` %s="%s"`, names[(i+rapid.IntRange(0, 4).Draw(t, "an"))%5]+strconv.Itoa(i), rapid.SampledFrom(attrVals).Draw(t, "av"))
	}
	return sb.String()
}

func genInline(t *rapid.T, depth int, inA bool) string {
	switch k := rapid.IntRange(0, 7).Draw(t, "inl"); {
	case k <= 2 || depth <= 0:
		return rapid.SampledFrom(texts).Draw(t, "text")
	case k == 3:
		el := rapid.SampledFrom([]string{"span", "b", "i", "em", "code", "strong"}).Draw(t, "iel")
		return "<" + el + genAttrs(t) + ">" + genInline(t, depth-1, inA) + genInline(t, depth-1, inA) + "</" + el + ">"
	case k == 4 && !inA:
		return `<a href="/p?a=1&amp;b=2"` + genAttrs(t) + ">" + genInline(t, depth-1, true) + "</a>"
	case k == 5:
		return rapid.SampledFrom([]string{"<br>", "<br/>", `<img src="i.png" alt="é">`, `<input type="text" value="v">`, "<wbr>"}).Draw(t, "void")
	case k == 6:
		return "<!-- " + rapid.SampledFrom([]string{"c", "a-b", "é", "<p>", "x > y"}).Draw(t, "cm") + " -->"
	}
	return rapid.SampledFrom(texts).Draw(t, "text2")
}

func genBlock(t *rapid.T, depth int) string {
	switch k := rapid.IntRange(0, 9).Draw(t, "blk"); {
	case k <= 1 || depth <= 0:
		return "<p" + genAttrs(t) + ">" + genInline(t, 2, false) + "</p>"
	case k == 2:
		el := rapid.SampledFrom([]string{"div", "section", "main", "article", "blockquote", "header", "footer"}).Draw(t, "bel")
		var sb strings.Builder
		sb.WriteString("<" + el + genAttrs(t) + ">")
		for i, n := 0, rapid.IntRange(0, 3).Draw(t, "nch"); i < n; i++ {
			sb.WriteString(genBlock(t, depth-1))
			if rapid.Bool().Draw(t, "nl") {
				sb.WriteString("\n")
			}
		}
		sb.WriteString("</" + el + ">")
		return sb.String()
	case k == 3:
		var sb strings.Builder
		sb.WriteString("<ul>")
		for i, n := 0, rapid.IntRange(1, 3).Draw(t, "nli"); i < n; i++ {
			sb.WriteString("<li>" + genInline(t, 2, false) + "</li>")
		}
		sb.WriteString("</ul>")
		return sb.String()
	case k == 4:
		h := "h" + strconv.Itoa(rapid.IntRange(1, 3).Draw(t, "h"))
		return "<" + h + ">" + genInline(t, 1, false) + "</" + h + ">"
	case k == 5:
		return `<script>var a = "<b>"; if (1 < 2 && a) { console.log('é'); }</script>`
	case k == 6:
		return "<style>.c > p { color: red; } /* é */</style>"
	case k == 7:
		return `<script type="application/json" id="d">{"a":"</p>","b":[1,2]}</script>`
	case k == 9:
		// content models a parse/serialise round trip can get wrong
		return rapid.SampledFrom(specialBlocks).Draw(t, "special")
	}
	return "<div>" + genInline(t, 2, false) + "</div>"
}

// specialBlocks: elements whose content is not ordinary markup (raw text, escapable raw text,
// noscript, templates, foreign content, tables, preformatted text with a leading line break).
var specialBlocks = []string{
	`<noscript><p>Please enable JavaScript.</p></noscript>`,
	`<noscript>&lt;script&gt;alert(1)&lt;/script&gt; &amp;lt;b&amp;gt; &lt;b&gt;bold&lt;/b&gt;</noscript>`,
	`<noscript><img src="/pixel.gif?a=1&amp;b=2" alt=""></noscript>`,
	`<textarea name="t">&lt;b&gt; x &amp;amp; </p> <script>1</script></textarea>`,
	"<textarea>\n\nleading line breaks</textarea>",
	"<pre>\n\ntwo leading line breaks</pre>",
	"<pre>a\n  b\tc</pre>",
	`<template><tr><td>cell</td></tr><p>in template</p></template>`,
	`<svg viewBox="0 0 10 10" xmlns="http://www.w3.org/2000/svg"><circle cx="5" cy="5" r="4"/><foreignObject><p>html</p></foreignObject><title>&lt;t&gt;</title></svg>`,
	`<math><mi>x</mi><annotation-xml encoding="text/html"><b>b</b></annotation-xml></math>`,
	`<table><caption>c</caption><thead><tr><th>h</th></tr></thead><tbody><tr><td>1 &lt; 2</td><td><b>x</b></td></tr></tbody></table>`,
	`<table><tr><td>implied tbody</td></tr></table>`,
	`<select name="s"><option value="1" selected>one</option><optgroup label="g"><option>two</option></optgroup></select>`,
	`<iframe src="/f" title="f">&lt;fallback&gt;</iframe>`,
	`<details open><summary>s</summary><p>d</p></details>`,
	`<a href="/x?a=1&amp;b=2#f" title="&quot;t&quot;">link <b>bold</b></a>`,
	`<button type="button" onclick="if (a &lt; b &amp;&amp; c) { go('x') }">go</button>`,
	`<p>unclosed paragraph<p>second`,
	`<ul><li>unclosed item<li>second item</ul>`,
	`<dl><dt>t<dd>d</dl>`,
	`<img src="a.png"
	alt="line
break">`,
	"<p>nul-free &#0; &#x80; &#xD800; references</p>",
	`<div hidden data-x='single "double" inside' data-y=unquoted>attrs</div>`,
}

// headExtras: what real pages keep in their head besides title and meta.
var headExtras = []string{
	`<noscript><img height="1" width="1" src="https://example.test/tr?id=1&amp;ev=PageView"></noscript>`,
	`<noscript><link rel="stylesheet" href="/noscript.css"></noscript>`,
	`<noscript><style>.js-only { display: none }</style></noscript>`,
	`<style>body > p::before { content: "<x>"; }</style>`,
	`<script>window.dataLayer = window.dataLayer || []; if (1 < 2) { dataLayer.push("</" + "script>"); }</script>`,
	`<base href="/">`,
	`<link rel="icon" href="data:image/svg+xml,%3Csvg xmlns='http://www.w3.org/2000/svg'/%3E">`,
	`<meta name="viewport" content="width=device-width, initial-scale=1">`,
	`<template id="t"><p>head template</p></template>`,
}

var genDoc = rapid.Custom(func(t *rapid.T) string {
	var sb strings.Builder
	if rapid.Bool().Draw(t, "doctype") {
		sb.WriteString("<!DOCTYPE html>")
		if rapid.Bool().Draw(t, "dnl") {
			sb.WriteString("\n")
		}
	}
	explicit := rapid.IntRange(0, 3).Draw(t, "explicit") // 0: bare fragment, 1: body only, 2: html+body, 3: html+head+body
	if rapid.IntRange(0, 5).Draw(t, "leadComment") == 0 {
		sb.WriteString("<!-- generated -->\n")
	}
	if explicit >= 2 {
		sb.WriteString(`<html lang="en">`)
	}
	if explicit == 3 {
		sb.WriteString("<head>")
		if rapid.Bool().Draw(t, "meta") {
			sb.WriteString(`<meta charset="utf-8">`)
		}
		sb.WriteString("<title>" + rapid.SampledFrom([]string{"T", "é &amp; x", "a <b> c"}).Draw(t, "title") + "</title>")
		if rapid.Bool().Draw(t, "headscript") {
			sb.WriteString(`<script src="/app.js" defer></script><link rel="stylesheet" href="/s.css">`)
		}
		for i, n := 0, rapid.IntRange(0, 2).Draw(t, "nheadextras"); i < n; i++ {
			sb.WriteString(rapid.SampledFrom(headExtras).Draw(t, "headextra"))
		}
		if rapid.Bool().Draw(t, "titleAfter") {
			sb.WriteString("<title>second title</title>")
		}
		sb.WriteString("</head>")
	}
	if explicit >= 1 {
		sb.WriteString("<body" + genAttrs(t) + ">")
	}
	n := rapid.IntRange(0, 4).Draw(t, "nblocks")
	if explicit == 0 && n == 0 {
		n = 1
	}
	rep := rapid.IntRange(0, n).Draw(t, "reppos")
	for i := 0; i < n; i++ {
		if i == rep {
			sb.WriteString("<!--REP-->" + genBlock(t, 2) + "<!--REP-->")
			continue
		}
		sb.WriteString(genBlock(t, 3))
	}
	if explicit >= 1 && rapid.IntRange(0, 3).Draw(t, "closebody") > 0 {
		sb.WriteString("</body>")
		// comments and text after the end tags: the parser attaches a comment after </body> to
		// <html> and one after </html> to the document, not to the body
		trailer := func(label string) {
			switch rapid.IntRange(0, 5).Draw(t, label) {
			case 0:
				sb.WriteString("<!-- rendered in 3ms -->")
			case 1:
				sb.WriteString("\n<!-- cache: miss -->\n")
			case 2:
				sb.WriteString("\n  ")
			}
		}
		trailer("afterBody")
		if explicit >= 2 {
			sb.WriteString("</html>")
			trailer("afterHTML")
		}
		if rapid.Bool().Draw(t, "trailingnl") {
			sb.WriteString("\n")
		}
	}
	return sb.String()
})

// SeqCase: the same page fetched several times in a row through the one proxy, as live reload does,
// with what the application varies per request (the CSP nonce, the encoding it negotiates).
type SeqCase struct {
	Cases []Case `json:"cases"`
}

func decideSeq(sc SeqCase) error {
	for i, c := range sc.Cases {
		if err := decide(c); err != nil {
			return fmt.Errorf("fetch %d of %d of the same page: %v", i+1, len(sc.Cases), err)
		}
	}
	return nil
}

func init() {
	ev.RegisterReplay("c20.proxy", func(raw json.RawMessage) error {
		var sc SeqCase
		if err := json.Unmarshal(raw, &sc); err == nil && len(sc.Cases) > 0 {
			return decideSeq(sc)
		}
		var c Case
		if err := json.Unmarshal(raw, &c); err != nil {
			return err
		}
		return decide(c)
	})
}

func TestPropProxy(t *testing.T) {
	maxRep := ev.Pick(3000, 60000)
	rapid.Check(t, func(t *rapid.T) {
		c := Case{
			Doc:         genDoc.Draw(t, "doc"),
			Repeat:      rapid.SampledFrom([]int{1, 1, 1, 2, 10, 300, maxRep}).Draw(t, "repeat"),
			ContentType: rapid.SampledFrom([]string{"text/html", "text/html", "text/html; charset=utf-8", "text/html; charset=utf-8", "application/json", "text/plain; charset=utf-8", "text/css", "application/xhtml+xml"}).Draw(t, "ct"),
			Encoding:    rapid.SampledFrom([]string{"", "", "gzip", "gzip", "br", "br", "deflate", "zstd", "x-junk"}).Draw(t, "enc"),
			CSP: rapid.SampledFrom([]string{"", "", "script-src 'self' 'nonce-abc123'", "default-src 'self'; script-src 'nonce-r4nd0m' 'strict-dynamic'; style-src 'nonce-zzz'",
				"script-src 'nonce-first' 'nonce-second'", "style-src 'nonce-onlystyle'", "default-src 'none'", "img-src *;script-src  'unsafe-inline'   'nonce-sp4ced' ;",
				// nonces as servers really mint them: standard base64 of 16 / 32 / 10 bytes (with = padding), base64url, + and /
				"script-src 'nonce-dGVtcGwtbm9uY2UtMTIzNA=='", "default-src 'self'; script-src 'self' 'nonce-q83vASNFZ4mrze8BI0VniavN7wEjRWeJq83vASNFZ4k=' 'strict-dynamic'",
				"script-src 'nonce-AAECAwQFBgcICQ=='", "script-src 'nonce-a+b/c+d/e+f/0123456789=='", "script-src 'nonce-a-b_c-d_e-f_0123456789'", "SCRIPT-SRC 'nonce-UPPERdirective='"}).Draw(t, "csp"),
			HX:        rapid.IntRange(0, 5).Draw(t, "hx") == 0,
			SkipMark:  rapid.IntRange(0, 7).Draw(t, "skip") == 0,
			AcceptEnc: rapid.IntRange(0, 4).Draw(t, "ae") > 0,
			Chunked:   rapid.IntRange(0, 3).Draw(t, "chunked") == 0,
		}
		if rapid.IntRange(0, 24).Draw(t, "restart") == 0 {
			c.DropFirst = rapid.IntRange(1, 3).Draw(t, "dropFirst")
			rec.Class("backend drops the first attempts (application restarting)")
		}
		// sizes just past the round limits a buffering intermediary might impose
		if parts := strings.SplitN(c.Doc, "<!--REP-->", 3); len(parts) == 3 && len(parts[1]) > 0 && rapid.IntRange(0, 39).Draw(t, "big") == 0 {
			limits := []int{1 << 20, 2 << 20, 4 << 20}
			if ev.Pick(0, 1) == 1 {
				limits = append(limits, 8<<20, 10<<20, 16<<20)
			}
			target := rapid.SampledFrom(limits).Draw(t, "limit") + rapid.SampledFrom([]int{1, 4096, 300000}).Draw(t, "over")
			c.Repeat = target/len(parts[1]) + 1
			rec.Class("document just over 1 / 2 / 4 ... MiB")
		}
		rec.Eval(1)
		rec.Class(c.class())
		size := len(c.doc())
		if c.Encoding != "" || c.CSP != "" || size > 65536 || !c.shouldModify() {
			rec.NonTrivial(fmt.Sprint(c), func() any {
				s := c
				s.Doc = clip(s.Doc)
				return map[string]any{"case": s, "doc_bytes": size}
			})
		}
		if err := decide(c); err != nil {
			rec.Fail(t, c, "%v", err)
		}
		// the same page again, with another nonce (one per request, as a CSP middleware mints them),
		// without one, in another encoding
		if rapid.IntRange(0, 4).Draw(t, "again") == 0 {
			sc := SeqCase{Cases: []Case{c}}
			for i, n := 0, rapid.IntRange(1, 3).Draw(t, "refetches"); i < n; i++ {
				c2 := c
				c2.DropFirst = 0
				c2.CSP = rapid.SampledFrom([]string{"", "script-src 'self' 'nonce-second1'", "script-src 'nonce-third22' 'strict-dynamic'", c.CSP}).Draw(t, "csp2")
				c2.Encoding = rapid.SampledFrom([]string{c.Encoding, c.Encoding, "", "gzip", "br"}).Draw(t, "enc2")
				sc.Cases = append(sc.Cases, c2)
			}
			rec.Class("the same page fetched again with another nonce / encoding")
			rec.Eval(len(sc.Cases) - 1)
			if err := decideSeq(SeqCase{Cases: sc.Cases[1:]}); err != nil {
				rec.Fail(t, sc, "%v", err)
			}
		}
	})
}

// TestPropShrinkage: the proxy re-serialises the document, which changes its length (a character
// reference written as &quot; comes back one byte shorter); documents are enumerated whose
// re-serialisation is 0..130 bytes shorter than the original, so that every coincidence between
// that difference and the length of what is appended is covered.
func TestPropShrinkage(t *testing.T) {
	shard, shards := ev.Shard()
	n := 0
	for k := 0; k <= 130; k++ {
		if k%shards != shard {
			continue
		}
		for _, csp := range []string{"", "script-src 'self' 'nonce-r4nd0m'", "script-src 'nonce-dGVtcGwtbm9uY2UtMTIzNA=='"} {
			for _, enc := range []string{"", "gzip", "br"} {
				c := Case{
					Doc:         "<html><head><title>t</title></head><body><p>" + strings.Repeat("&quot;", k) + "</p></body></html>",
					Repeat:      1,
					ContentType: "text/html; charset=utf-8",
					Encoding:    enc,
					CSP:         csp,
					AcceptEnc:   true,
				}
				n++
				rec.Eval(1)
				if err := decide(c); err != nil {
					rec.Fail(t, c, "%v", err)
				}
			}
		}
	}
	rec.ClassN("documents whose re-serialisation is 0..130 bytes shorter (enumerated completely)", n)
	rec.Enumerated(int64(n))
}

func TestReplay(t *testing.T) {
	for _, r := range ev.RunReplays() {
		t.Logf("%+v", r)
	}
}

// ---------- overlapping exchanges ----------

type ConcCase struct {
	Cases []Case `json:"cases"`
	Procs int    `json:"procs"`
}

var recConc = ev.New("C20", "c20.concurrent",
	"2..10 generated exchanges run at the same time through one proxy handler, with clients that read slowly (so responses overlap inside the proxy) and GOMAXPROCS 1, 2 or 16; each exchange is judged by the same oracle as c20.proxy (the proxy must not mix or truncate responses that are in flight together). "+
		"Non-trivial = >=3 overlapping exchanges of which >=2 are rewritten HTML of >64KiB; distinct by case. Schedules are sampled, not enumerated")

func decideConc(cc ConcCase) error {
	if cc.Procs > 0 {
		defer runtime.GOMAXPROCS(runtime.GOMAXPROCS(cc.Procs))
	}
	errs := make([]error, len(cc.Cases))
	var wg sync.WaitGroup
	for i, c := range cc.Cases {
		wg.Add(1)
		go func(i int, c Case) {
			defer wg.Done()
			errs[i] = decideOpts(c, true)
		}(i, c)
	}
	wg.Wait()
	for i, err := range errs {
		if err != nil {
			return fmt.Errorf("exchange %d of %d overlapping: %v", i, len(cc.Cases), err)
		}
	}
	return nil
}

func init() {
	ev.RegisterReplay("c20.concurrent", func(raw json.RawMessage) error {
		var c ConcCase
		if err := json.Unmarshal(raw, &c); err != nil {
			return err
		}
		for i := 0; i < 20; i++ {
			if err := decideConc(c); err != nil {
				return err
			}
		}
		return nil
	})
}

func genCase(t *rapid.T, maxRep int) Case {
	return Case{
		Doc:         genDoc.Draw(t, "doc"),
		Repeat:      rapid.SampledFrom([]int{1, 10, 300, maxRep, maxRep}).Draw(t, "repeat"),
		ContentType: rapid.SampledFrom([]string{"text/html", "text/html; charset=utf-8", "text/html", "application/json"}).Draw(t, "ct"),
		Encoding:    rapid.SampledFrom([]string{"", "", "gzip", "br", "deflate"}).Draw(t, "enc"),
		CSP:         rapid.SampledFrom([]string{"", "script-src 'nonce-abc123'"}).Draw(t, "csp"),
		HX:          rapid.IntRange(0, 7).Draw(t, "hx") == 0,
		AcceptEnc:   true,
		Chunked:     rapid.IntRange(0, 3).Draw(t, "chunked") == 0,
	}
}

func TestPropConcurrentExchanges(t *testing.T) {
	maxRep := ev.Pick(8000, 40000)
	rapid.Check(t, func(t *rapid.T) {
		n := rapid.IntRange(2, 10).Draw(t, "n")
		cc := ConcCase{Procs: rapid.SampledFrom([]int{1, 1, 2, 16}).Draw(t, "procs")}
		big := 0
		for i := 0; i < n; i++ {
			c := genCase(t, maxRep)
			if c.shouldModify() && len(c.doc()) > 65536 {
				big++
			}
			cc.Cases = append(cc.Cases, c)
		}
		recConc.Eval(len(cc.Cases))
		if n >= 3 && big >= 2 {
			recConc.NonTrivial(fmt.Sprint(cc), func() any {
				var out []map[string]any
				for _, c := range cc.Cases {
					out = append(out, map[string]any{"class": c.class(), "bytes": len(c.doc()), "encoding": c.Encoding, "chunked": c.Chunked})
				}
				return map[string]any{"procs": cc.Procs, "exchanges": out}
			})
		}
		if err := decideConc(cc); err != nil {
			recConc.Fail(t, cc, "%v", err)
		}
	})
}
