package c17

import (
	"context"
	"encoding/json"
	"fmt"
	"net"
	"strings"
	"sync"
	"testing"
	"time"

	"github.com/a-h/templ/cmd/templ/lspcmd/proxy"
	"github.com/a-h/templ/lsp/jsonrpc2"
	lsp "github.com/a-h/templ/lsp/protocol"
	"pgregory.net/rapid"

	"verif/ev"
)

// WireCase: a session spoken over the wire. The editor's side writes JSON-RPC messages into one
// end of a pipe; the other end is the real server stack (protocol.NewServer, its handler chain,
// proxy.Server) with gopls replaced by a stub that can be slow.
type WireCase struct {
	Doc   string     `json:"doc"`
	Steps []WireStep `json:"steps"`
}

// WireStep kinds: change (an incremental or full edit, as in ServerCase), hover (a request with the
// string id "h<N>"), cancel ($/cancelRequest for request "h<N>"), slow (gopls starts taking its time:
// its DidChange calls block), fast (gopls catches up).
type WireStep struct {
	Kind string `json:"kind"`
	Op   Op     `json:"op,omitempty"`
	N    int    `json:"n,omitempty"`
}

var recWire = ev.New("C17", "c17.wire",
	"sessions spoken as JSON-RPC over a pipe against the real server stack (protocol.NewServer with its cancel / async / reply handler chain, proxy.Server) with gopls replaced by a stub whose DidChange can block: didOpen, then 3-14 generated steps - incremental and full changes, hover requests with string ids, $/cancelRequest for requests that may still be queued, gopls turning slow and catching up - and a final request that drains the queue. "+
		"Oracle: after the final response the server's copy equals the byte-splice model applied in the order the editor sent the changes, and no request is answered twice. Non-trivial = a request is cancelled while changes are queued behind a slow gopls; distinct by session")

type wireGopls struct {
	lsp.Server
	mu   sync.Mutex
	gate chan struct{} // non-nil: DidChange blocks until it is closed
}

func (s *wireGopls) DidOpen(context.Context, *lsp.DidOpenTextDocumentParams) error { return nil }
func (s *wireGopls) DidChange(ctx context.Context, _ *lsp.DidChangeTextDocumentParams) error {
	s.mu.Lock()
	g := s.gate
	s.mu.Unlock()
	if g != nil {
		select {
		case <-g:
		case <-time.After(20 * time.Second):
		}
	}
	return nil
}
func (s *wireGopls) Hover(context.Context, *lsp.HoverParams) (*lsp.Hover, error) { return nil, nil }

func (s *wireGopls) slow() {
	s.mu.Lock()
	if s.gate == nil {
		s.gate = make(chan struct{})
	}
	s.mu.Unlock()
}

func (s *wireGopls) fast() {
	s.mu.Lock()
	if s.gate != nil {
		close(s.gate)
		s.gate = nil
	}
	s.mu.Unlock()
}

func decideWire(c WireCase) (err error) {
	defer func() {
		if x := recover(); x != nil {
			if s, ok := x.(string); ok && strings.HasPrefix(s, "harness:") {
				panic(x)
			}
			err = fmt.Errorf("panic: %v", x)
		}
	}()
	const uri = "file:///w/page.templ"
	gopls := &wireGopls{}
	srv := proxy.NewServer(discard, gopls, proxy.NewSourceMapCache(), proxy.NewDiagnosticCache(), true)
	editorSide, serverSide := net.Pipe()
	ctx, cancel := context.WithCancel(context.Background())
	defer cancel()
	_, conn, _ := lsp.NewServer(ctx, srv, jsonrpc2.NewStream(serverSide), discard)
	defer conn.Close()
	defer editorSide.Close()
	editor := jsonrpc2.NewStream(editorSide)

	var mu sync.Mutex
	responses := map[string]int{}
	syncDone := make(chan struct{})
	go func() {
		for {
			msg, _, rerr := editor.Read(ctx)
			if rerr != nil {
				return
			}
			if r, ok := msg.(*jsonrpc2.Response); ok {
				rid := r.ID()
				b, _ := rid.MarshalJSON()
				id := strings.Trim(string(b), `"`)
				mu.Lock()
				responses[id]++
				n := responses[id]
				mu.Unlock()
				if id == "sync" && n == 1 {
					close(syncDone)
				}
			}
		}
	}()
	write := func(m jsonrpc2.Message) {
		done := make(chan error, 1)
		go func() { _, werr := editor.Write(ctx, m); done <- werr }()
		select {
		case werr := <-done:
			if werr != nil {
				panic("harness: write to the server: " + werr.Error())
			}
		case <-time.After(20 * time.Second):
			panic(fmt.Sprintf("the server stopped reading its input (a %T has been waiting for 20s)", m))
		}
	}
	type m = map[string]any
	notify := func(method string, params any) {
		n, nerr := jsonrpc2.NewNotification(method, params)
		if nerr != nil {
			panic("harness: " + nerr.Error())
		}
		write(n)
	}
	call := func(id, method string, params any) {
		cl, cerr := jsonrpc2.NewCall(jsonrpc2.NewStringID(id), method, params)
		if cerr != nil {
			panic("harness: " + cerr.Error())
		}
		write(cl)
	}
	model := c.Doc
	version := 1
	notify("textDocument/didOpen", m{"textDocument": m{"uri": uri, "languageId": "templ", "version": version, "text": c.Doc}})
	asked := map[string]bool{}
	for _, st := range c.Steps {
		switch st.Kind {
		case "change":
			version++
			ch := m{"text": st.Op.Text}
			if !st.Op.Nil {
				ch["range"] = m{"start": m{"line": st.Op.L1, "character": st.Op.C1}, "end": m{"line": st.Op.L2, "character": st.Op.C2}}
			}
			model = modelApply(model, st.Op)
			notify("textDocument/didChange", m{"textDocument": m{"uri": uri, "version": version}, "contentChanges": []m{ch}})
		case "hover":
			id := fmt.Sprintf("h%d", st.N)
			if asked[id] {
				continue
			}
			asked[id] = true
			call(id, "textDocument/hover", m{"textDocument": m{"uri": uri}, "position": m{"line": 0, "character": 0}})
		case "cancel":
			notify("$/cancelRequest", m{"id": fmt.Sprintf("h%d", st.N)})
		case "slow":
			gopls.slow()
		case "fast":
			gopls.fast()
		case "pause":
			time.Sleep(2 * time.Millisecond)
		}
	}
	time.Sleep(2 * time.Millisecond) // a cancellation that is going to overtake something gets its chance
	gopls.fast()
	call("sync", "textDocument/hover", m{"textDocument": m{"uri": uri}, "position": m{"line": 0, "character": 0}})
	select {
	case <-syncDone:
	case <-time.After(30 * time.Second):
		return fmt.Errorf("the server never answered the request sent after the session (30s)")
	}
	d, ok := srv.TemplSource.Get(uri)
	if !ok {
		return fmt.Errorf("after the session the server has no copy of the document")
	}
	if d.String() != model {
		return fmt.Errorf("after the session the server's copy is %q, the editor shows %q", clipS(d.String()), clipS(model))
	}
	mu.Lock()
	defer mu.Unlock()
	for id := range asked {
		// (whether and when a cancelled request is answered is not this property's business)
		if responses[id] > 1 {
			return fmt.Errorf("request %s got %d responses", id, responses[id])
		}
	}
	return nil
}

func init() {
	ev.RegisterReplay("c17.wire", func(raw json.RawMessage) error {
		var c WireCase
		if err := json.Unmarshal(raw, &c); err != nil {
			return err
		}
		for i := 0; i < 5; i++ { // the handler chain runs concurrently: the schedule is sampled
			if err := decideWire(c); err != nil {
				return err
			}
		}
		return nil
	})
}

func TestPropWire(t *testing.T) {
	docs := []string{"package p\n\ntempl T() {\n\t<div>ab</div>\n}\n", "ab\ncd\n", "package p\n\ntempl A() {\n\t<p>é</p>\n}\n\ntempl B() {\n\t<i>x</i>\n}\n", ""}
	rapid.Check(t, func(t *rapid.T) {
		c := WireCase{Doc: rapid.SampledFrom(docs).Draw(t, "doc")}
		model := c.Doc
		hovers := 0
		queuedBehindSlow, cancelledWhileQueued := false, false
		slow := false
		// half of the sessions start with the shape that matters most: gopls slow, changes queued
		// behind it, a request among them, and its cancellation
		forced := []string{}
		if rapid.Bool().Draw(t, "forced") {
			forced = []string{"change", "slow", "change", "change", "hover", "change", "cancel"}
		}
		for i, n := 0, len(forced)+rapid.IntRange(3, 14).Draw(t, "steps"); i < n; i++ {
			kind := ""
			if i < len(forced) {
				kind = forced[i]
			} else {
				kind = rapid.SampledFrom([]string{"change", "change", "change", "hover", "cancel", "slow", "fast", "pause"}).Draw(t, "kind")
			}
			switch kind {
			case "change":
				ro := genRawOp.Draw(t, "op")
				text := rapid.SampledFrom(editTexts).Draw(t, "text")
				var op Op
				if ro.Full {
					op = Op{Nil: true, Text: model + text}
				} else {
					l1, c1 := pos(model, ro.L1, ro.K1)
					l2, c2 := l1, c1
					if ro.K2%3 == 0 {
						l2, c2 = pos(model, ro.L1+ro.L2%3, ro.K2)
						if l2 < l1 || (l2 == l1 && c2 < c1) {
							l1, c1, l2, c2 = l2, c2, l1, c1
						}
					}
					op = Op{L1: l1, C1: c1, L2: l2, C2: c2, Text: text}
				}
				model = modelApply(model, op)
				c.Steps = append(c.Steps, WireStep{Kind: "change", Op: op})
				if slow {
					queuedBehindSlow = true
				}
			case "hover":
				hovers++
				c.Steps = append(c.Steps, WireStep{Kind: "hover", N: hovers})
			case "cancel":
				if hovers == 0 {
					continue
				}
				c.Steps = append(c.Steps, WireStep{Kind: "cancel", N: rapid.IntRange(1, hovers).Draw(t, "which")})
				if queuedBehindSlow {
					cancelledWhileQueued = true
				}
			case "slow":
				slow = true
				c.Steps = append(c.Steps, WireStep{Kind: kind})
			case "fast":
				slow, queuedBehindSlow = false, false
				c.Steps = append(c.Steps, WireStep{Kind: kind})
			default:
				c.Steps = append(c.Steps, WireStep{Kind: kind})
			}
		}
		recWire.Eval(len(c.Steps))
		if cancelledWhileQueued {
			recWire.NonTrivial(fmt.Sprint(c), func() any { return c })
		}
		if err := decideWire(c); err != nil {
			recWire.Fail(t, c, "%v", err)
		}
	})
}
