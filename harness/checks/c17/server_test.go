package c17

import (
	"bytes"
	"context"
	"encoding/json"
	"fmt"
	"strings"
	"testing"

	"github.com/a-h/templ/cmd/templ/lspcmd/proxy"
	"github.com/a-h/templ/generator"
	lsp "github.com/a-h/templ/lsp/protocol"
	"github.com/a-h/templ/parser/v2"
	"pgregory.net/rapid"
	"unicode/utf8"

	"verif/ev"
	"verif/tgen"
)

// ServerCase: a templ document opened in the language server and edited; after every change the Go
// text the server forwards to its target (gopls) must be the generation of what the editor shows.
type ServerCase struct {
	Doc string `json:"doc"`
	Ops []Op   `json:"ops"`
	// Batches: how many of the ops each DidChange notification carries (empty: 1, 2, 1, 2, ...).
	Batches []int `json:"batches,omitempty"`
	// Reopen lists notification numbers before which the editor closes the file and opens it
	// again with the text it shows at that moment (which may not parse: a file closed mid-edit).
	Reopen []int `json:"reopen,omitempty"`
}

var recSrv = ev.New("C17", "c17.server",
	"tgen programs are opened through proxy.Server.DidOpen and edited through DidChange with generated sequences of incremental and full-replace changes (1-4 changes per notification, each relative to the text the previous one left; positions on rune boundaries incl. beyond line/document end, and explicit ranges spanning the whole current document or the whole document as it was when the notification began) against a stub target and client; "+
		"oracle: after every notification the server's copy equals the byte-splice model, and whenever the model text parses the Go text last forwarded to the target equals generate(parse(model)) - what the user sees is what gopls analyses. "+
		"Non-trivial = an incremental edit on a multi-line document that parses afterwards; distinct by (document, edits)")

type stubTarget struct {
	lsp.Server // every other method would panic: the server must not call them here
	lastGo     string
	forwards   int
}

func (s *stubTarget) DidOpen(ctx context.Context, p *lsp.DidOpenTextDocumentParams) error {
	s.lastGo = p.TextDocument.Text
	s.forwards++
	return nil
}

func (s *stubTarget) DidChange(ctx context.Context, p *lsp.DidChangeTextDocumentParams) error {
	if len(p.ContentChanges) != 1 || p.ContentChanges[0].Range != nil {
		s.lastGo = "<not a single full replacement>"
	} else {
		s.lastGo = p.ContentChanges[0].Text
	}
	s.forwards++
	return nil
}

func (s *stubTarget) DidClose(ctx context.Context, p *lsp.DidCloseTextDocumentParams) error {
	return nil
}

type stubClient struct{ lsp.Client }

func (stubClient) PublishDiagnostics(context.Context, *lsp.PublishDiagnosticsParams) error {
	return nil
}

func expectedGo(src string) (string, bool) {
	tf, err := parser.ParseString(src)
	if err != nil {
		return "", false
	}
	var buf bytes.Buffer
	defer func() { _ = recover() }()
	if _, err := generator.Generate(tf, &buf); err != nil {
		return "", false
	}
	return buf.String(), true
}

func decideServer(c ServerCase) (err error) {
	defer func() {
		if x := recover(); x != nil {
			err = fmt.Errorf("panic: %v", x)
		}
	}()
	target := &stubTarget{}
	srv := proxy.NewServer(discard, target, proxy.NewSourceMapCache(), proxy.NewDiagnosticCache(), true)
	ctx := lsp.WithClient(context.Background(), stubClient{})
	const uri = "file:///w/page.templ"
	model := c.Doc
	if err := srv.DidOpen(ctx, &lsp.DidOpenTextDocumentParams{TextDocument: lsp.TextDocumentItem{URI: uri, Text: c.Doc}}); err != nil {
		return fmt.Errorf("DidOpen: %v", err)
	}
	check := func(step string) error {
		d, ok := srv.TemplSource.Get(uri)
		if !ok {
			return fmt.Errorf("%s: the server has no copy of the document", step)
		}
		if d.String() != model {
			return fmt.Errorf("%s: server copy %q, editor %q", step, clipS(d.String()), clipS(model))
		}
		if want, ok := expectedGo(model); ok && target.lastGo != want {
			return fmt.Errorf("%s: the Go text forwarded to gopls is not the generation of the editor's text (forwarded %d bytes, expected %d bytes; first difference at %d)", step, len(target.lastGo), len(want), firstDiff(target.lastGo, want))
		}
		return nil
	}
	if err := check("after open"); err != nil {
		return err
	}
	// ops are sent in notifications of several changes; within one notification every change is
	// relative to the document as the previous change left it (LSP 3.17, didChange)
	for i, b := 0, 0; i < len(c.Ops); b++ {
		n := 1 + (i % 2)
		if len(c.Batches) > 0 {
			n = max(1, c.Batches[b%len(c.Batches)])
		}
		if i+n > len(c.Ops) {
			n = len(c.Ops) - i
		}
		for _, r := range c.Reopen {
			if r != b {
				continue
			}
			cp := &lsp.DidCloseTextDocumentParams{}
			cp.TextDocument.URI = uri
			if err := srv.DidClose(ctx, cp); err != nil {
				return fmt.Errorf("DidClose before notification %d: %v", b, err)
			}
			if err := srv.DidOpen(ctx, &lsp.DidOpenTextDocumentParams{TextDocument: lsp.TextDocumentItem{URI: uri, Text: model}}); err != nil {
				return fmt.Errorf("DidOpen (reopen before notification %d): %v", b, err)
			}
			if err := check(fmt.Sprintf("after closing and reopening before notification %d", b)); err != nil {
				return err
			}
			break
		}
		var changes []lsp.TextDocumentContentChangeEvent
		for _, op := range c.Ops[i : i+n] {
			ch := lsp.TextDocumentContentChangeEvent{Text: op.Text}
			if !op.Nil {
				ch.Range = &lsp.Range{Start: lsp.Position{Line: op.L1, Character: op.C1}, End: lsp.Position{Line: op.L2, Character: op.C2}}
			}
			changes = append(changes, ch)
			model = modelApply(model, op)
		}
		params := &lsp.DidChangeTextDocumentParams{ContentChanges: changes}
		params.TextDocument.URI = uri
		if err := srv.DidChange(ctx, params); err != nil {
			return fmt.Errorf("DidChange %d: %v", i, err)
		}
		if err := check(fmt.Sprintf("after change %d", i+n-1)); err != nil {
			return err
		}
		i += n
	}
	return nil
}

func firstDiff(a, b string) int {
	n := min(len(a), len(b))
	for i := 0; i < n; i++ {
		if a[i] != b[i] {
			return i
		}
	}
	return n
}

func clipS(s string) string {
	if len(s) > 300 {
		return s[:300] + "..."
	}
	return s
}

func init() {
	ev.RegisterReplay("c17.server", func(raw json.RawMessage) error {
		var c ServerCase
		if err := json.Unmarshal(raw, &c); err != nil {
			return err
		}
		return decideServer(c)
	})
}

// editTexts are what a user types into a templ file.
var editTexts = []string{"", "", "x", " ", "\n", "\n\t", "é", "<b>", "</b>", "{ s1 }", "}", "{", "hello", "if b1 {\n\t\tx\n\t}\n", "世界", "\"", "@c\n"}

func TestPropServer(t *testing.T) {
	o := tgen.DefaultOptions
	o.MaxTemplates = 2
	g := tgen.GenFile(o)
	rapid.Check(t, func(t *rapid.T) {
		src, _ := tgen.Print(g.Draw(t, "file"), "P")
		// the file as it is opened may be in the middle of an edit
		switch rapid.IntRange(0, 7).Draw(t, "openState") {
		case 0:
			cut := rapid.IntRange(0, len(src)).Draw(t, "cut")
			for cut > 0 && cut < len(src) && !utf8.RuneStart(src[cut]) {
				cut--
			}
			src = src[:cut]
		case 1:
			if i := strings.LastIndex(src, "}"); i >= 0 {
				src = src[:i] + "\t<div>\n" + src[i:]
			}
		case 2:
			if i := strings.LastIndex(src, "}"); i >= 0 {
				src = src[:i] + "\tif {\n" + src[i:]
			}
		}
		if _, ok := expectedGo(src); !ok {
			recSrv.Class("opened in a state that does not parse")
		}
		c := ServerCase{Doc: src}
		model := src
		nNotes := rapid.IntRange(1, 8).Draw(t, "notifications")
		for b := 0; b < nNotes; b++ {
			if rapid.IntRange(0, 5).Draw(t, "reopen") == 0 {
				c.Reopen = append(c.Reopen, b)
				if _, ok := expectedGo(model); !ok {
					recSrv.Class("closed and reopened in a state that does not parse")
				} else {
					recSrv.Class("closed and reopened")
				}
			}
			size := rapid.SampledFrom([]int{1, 1, 2, 2, 3, 4}).Draw(t, "batch")
			c.Batches = append(c.Batches, size)
			atStart := model // the document when this notification begins
			for j := 0; j < size; j++ {
				ro := genRawOp.Draw(t, "op")
				var op Op
				text := rapid.SampledFrom(editTexts).Draw(t, "text")
				switch special := rapid.IntRange(0, 11).Draw(t, "special"); {
				case ro.Full:
					op = Op{Nil: true, Text: model + text}
				case special <= 1:
					// an explicit range that spans a whole document: the current one, or the one
					// this notification started from (a different range once earlier changes of the
					// same notification have grown the text)
					ref := model
					if special == 1 {
						ref = atStart
					}
					lines := strings.Split(ref, "\n")
					op = Op{L2: uint32(len(lines) - 1), C2: uint32(len(lines[len(lines)-1])), Text: text}
					recSrv.Class("explicit whole-document range")
				default:
					l1, c1 := pos(model, ro.L1, ro.K1)
					l2, c2 := l1, c1
					if ro.K2%3 == 0 { // a third of the edits replace a range
						l2, c2 = pos(model, ro.L1+ro.L2%3, ro.K2)
						if l2 < l1 || (l2 == l1 && c2 < c1) {
							l1, c1, l2, c2 = l2, c2, l1, c1
						}
					}
					op = Op{L1: l1, C1: c1, L2: l2, C2: c2, Text: text}
				}
				c.Ops = append(c.Ops, op)
				model = modelApply(model, op)
				if !op.Nil && strings.Contains(model, "\n") {
					if _, ok := expectedGo(model); ok {
						recSrv.NonTrivial(fmt.Sprintf("%q|%v", model, op), func() any {
							return map[string]any{"edit": op, "document_bytes": len(model), "position_in_notification": j, "notification_size": size}
						})
					}
				}
			}
		}
		recSrv.Eval(len(c.Ops))
		if err := decideServer(c); err != nil {
			recSrv.Fail(t, c, "%v", err)
		}
	})
}
