package c17

import (
	"encoding/json"
	"fmt"
	"io"
	"log/slog"
	"os"
	"strings"
	"testing"

	"github.com/a-h/templ/cmd/templ/lspcmd/proxy"
	lsp "github.com/a-h/templ/lsp/protocol"
	"pgregory.net/rapid"

	"verif/ev"
)

func TestMain(m *testing.M) {
	code := m.Run()
	ev.FlushAll()
	os.Exit(code)
}

// Op is one LSP content change. Nil means "no range": full replacement.
type Op struct {
	Nil            bool   `json:"nil,omitempty"`
	L1, C1, L2, C2 uint32 `json:",omitempty"`
	Text           string `json:"text"`
}

type Case struct {
	Doc string `json:"doc"`
	Ops []Op   `json:"ops"`
}

// ---- reference model: a byte string with LSP clamping ----

// offset converts (line, col) to a byte offset in doc, clamping a line beyond the last one to the
// end of the document and a column beyond the line to the line's end.
func offset(doc string, line, col uint32) int {
	off := 0
	for l := uint32(0); ; l++ {
		nl := strings.IndexByte(doc[off:], '\n')
		end := len(doc)
		if nl >= 0 {
			end = off + nl
		}
		if l == line {
			if int(col) > end-off {
				return end
			}
			return off + int(col)
		}
		if nl < 0 {
			return len(doc) // line beyond the end
		}
		off = end + 1
	}
}

func modelApply(doc string, op Op) string {
	if op.Nil {
		return op.Text
	}
	s, e := offset(doc, op.L1, op.C1), offset(doc, op.L2, op.C2)
	return doc[:s] + op.Text + doc[e:]
}

var discard = slog.New(slog.NewTextHandler(io.Discard, nil))

// decide applies the case to the real Document and to the model, comparing after every step.
func decide(c Case) (err error) {
	defer func() {
		if x := recover(); x != nil {
			err = fmt.Errorf("panic: %v", x)
		}
	}()
	d := proxy.NewDocument(discard, c.Doc)
	model := c.Doc
	if d.String() != model {
		return fmt.Errorf("after open: document %q, editor %q", d.String(), model)
	}
	for i, op := range c.Ops {
		var r *lsp.Range
		if !op.Nil {
			r = &lsp.Range{Start: lsp.Position{Line: op.L1, Character: op.C1}, End: lsp.Position{Line: op.L2, Character: op.C2}}
		}
		before := model
		model = modelApply(model, op)
		d.Apply(r, op.Text)
		if got := d.String(); got != model {
			return fmt.Errorf("step %d: %q edit %+v: document %q, editor %q", i, before, op, got, model)
		}
	}
	return nil
}

func init() {
	ev.RegisterReplay("c17.document", func(raw json.RawMessage) error {
		var c Case
		if err := json.Unmarshal(raw, &c); err != nil {
			return err
		}
		return decide(c)
	})
}

func TestReplay(t *testing.T) {
	for _, r := range ev.RunReplays() {
		t.Logf("%+v", r)
	}
}

var recDoc = ev.New("C17", "c17.document",
	"exhaustive: every document of <=N chars over {a,LF}, their CR LF variants, documents with a stray CR and documents with a byte order mark, NUL, FF, NEL or a Unicode line separator at the start, inside or at the end x every ordered range with coordinates up to 2 beyond the document x 7 replacement texts (two with CR); "+
		"random: multi-byte documents (columns at rune boundaries) and edit sequences of up to 40 open/replace/incremental edits incl. out-of-range positions. "+
		"Non-trivial = an incremental (ranged) edit applied to a document with >=2 lines; distinct by (document, range, text)")

func isNT(doc string, op Op) bool { return !op.Nil && strings.Contains(doc, "\n") }

// TestPropExhaustive enumerates the small space completely.
func TestPropExhaustive(t *testing.T) {
	maxLen := ev.Pick(4, 6)
	texts := []string{"", "x", "\n", "x\ny", "\n\n", "x\r\ny", "\r"}
	var docs []string
	var gen func(p string)
	gen = func(p string) {
		docs = append(docs, p)
		if len(p) == maxLen {
			return
		}
		gen(p + "a")
		gen(p + "\n")
	}
	gen("")
	// documents with CR LF line ends (and a stray CR): a carriage return is a byte of its line
	for _, d := range append([]string(nil), docs...) {
		if strings.Contains(d, "\n") && len(d) <= maxLen-1 {
			docs = append(docs, strings.ReplaceAll(d, "\n", "\r\n"))
		}
	}
	docs = append(docs, "a\rb", "a\r", "\r\n\r\n", "ab\r\ncd\r\n")
	// characters an implementation might treat as "not part of the text": a byte order mark, NUL,
	// form feed, NEL and the Unicode line separators, at the start, inside and at the end
	for _, sp := range []string{"\uFEFF", "\x00", "\f", "\u0085", "\u2028", "\u2029"} {
		docs = append(docs, sp, sp+"a", sp+"a\nb", "a\n"+sp+"b", "ab"+sp, "a"+sp+"\n", sp+"\n"+sp)
	}
	n := 0
	for _, doc := range docs {
		lines := strings.Split(doc, "\n")
		maxLine := uint32(len(lines) + 1)
		maxCol := 0
		for _, l := range lines {
			if len(l) > maxCol {
				maxCol = len(l)
			}
		}
		mc := uint32(maxCol + 2)
		for l1 := uint32(0); l1 <= maxLine; l1++ {
			for c1 := uint32(0); c1 <= mc; c1++ {
				for l2 := l1; l2 <= maxLine; l2++ {
					for c2 := uint32(0); c2 <= mc; c2++ {
						if l2 == l1 && c2 < c1 {
							continue
						}
						for _, tx := range texts {
							op := Op{L1: l1, C1: c1, L2: l2, C2: c2, Text: tx}
							c := Case{Doc: doc, Ops: []Op{op}}
							n++
							if isNT(doc, op) {
								recDoc.NonTrivial(fmt.Sprintf("%q|%v", doc, op), func() any { return c })
							}
							if err := decide(c); err != nil {
								if k := knownClass(c, err); k != "" {
									recDoc.Excluded(k)
									continue
								}
								recDoc.Fail(t, c, "%v", err)
							}
						}
					}
				}
			}
		}
	}
	recDoc.Eval(n)
	recDoc.ClassN("exhaustive-single-edit", n)
	recDoc.Set("exhaustive", true)
	recDoc.Set("exhaustive_space", fmt.Sprintf("documents over {a,LF} of length <=%d plus CR LF variants (%d docs), all ordered ranges with coordinates <= size+2, texts %q", maxLen, len(docs), texts))
}

// knownClass maps a failing case to a listed known-finding class, or "".
func knownClass(c Case, err error) string { return "" }

// ---- random sequences ----

var alphabet = []string{"a", "b", "é", "世", "😀", "\n", "\n", " ", "\t", "{", "}", "\uFEFF", "\u2028", "\x00"}

func genText(max int) *rapid.Generator[string] {
	return rapid.Custom(func(t *rapid.T) string {
		n := rapid.IntRange(0, max).Draw(t, "n")
		var sb strings.Builder
		for i := 0; i < n; i++ {
			sb.WriteString(rapid.SampledFrom(alphabet).Draw(t, "ch"))
		}
		return sb.String()
	})
}

// RawOp is what rapid draws: selectors that are mapped onto the current document when the edit is
// applied, so that a sequence shrinks element-wise.
type RawOp struct {
	Full           bool
	L1, K1, L2, K2 int
	Text           string
}

// pos maps selectors to a position in doc: mostly a rune boundary inside the document, sometimes
// beyond the end of a line or of the document.
func pos(doc string, lsel, ksel int) (uint32, uint32) {
	lines := strings.Split(doc, "\n")
	l := lsel % (len(lines) + 2)
	if l >= len(lines) {
		return uint32(l), uint32(ksel % 6)
	}
	line := lines[l]
	bs := []int{0}
	for i := range line {
		if i > 0 {
			bs = append(bs, i)
		}
	}
	if len(line) > 0 {
		bs = append(bs, len(line))
	}
	bs = append(bs, len(line)+1, len(line)+3)
	return uint32(l), uint32(bs[ksel%len(bs)])
}

var genRawOp = rapid.Custom(func(t *rapid.T) RawOp {
	return RawOp{
		Full: rapid.IntRange(0, 9).Draw(t, "kind") == 9,
		L1:   rapid.IntRange(0, 63).Draw(t, "l1"), K1: rapid.IntRange(0, 63).Draw(t, "k1"),
		L2: rapid.IntRange(0, 63).Draw(t, "l2"), K2: rapid.IntRange(0, 63).Draw(t, "k2"),
		Text: genText(12).Draw(t, "text"),
	}
})

func TestPropSequences(t *testing.T) {
	rapid.Check(t, func(t *rapid.T) {
		c := Case{Doc: genText(60).Draw(t, "doc")}
		model := c.Doc
		raws := rapid.SliceOfN(genRawOp, 1, 40).Draw(t, "ops")
		for _, ro := range raws {
			var op Op
			if ro.Full {
				op = Op{Nil: true, Text: ro.Text}
			} else {
				l1, c1 := pos(model, ro.L1, ro.K1)
				l2, c2 := pos(model, ro.L2, ro.K2)
				if l2 < l1 || (l2 == l1 && c2 < c1) {
					l1, c1, l2, c2 = l2, c2, l1, c1
				}
				op = Op{L1: l1, C1: c1, L2: l2, C2: c2, Text: ro.Text}
			}
			if isNT(model, op) {
				m := model
				recDoc.NonTrivial(fmt.Sprintf("%q|%v", model, op), func() any { return Case{Doc: m, Ops: []Op{op}} })
			}
			if op.Nil {
				recDoc.Class("seq-full-replace")
			} else {
				recDoc.Class("seq-incremental")
			}
			c.Ops = append(c.Ops, op)
			model = modelApply(model, op)
		}
		recDoc.Eval(len(c.Ops))
		if err := decide(c); err != nil {
			if k := knownClass(c, err); k != "" {
				recDoc.Excluded(k)
				return
			}
			recDoc.Fail(t, c, "%v", err)
		}
	})
}
