package c10

import (
	"bytes"
	"context"
	"encoding/json"
	"errors"
	"fmt"
	"io"
	"testing"

	"github.com/a-h/templ"

	"verif/ev"
	"verif/fx"
)

// BlockCase: an expression or a nested component fails inside the block of a callee that comes
// with the runtime (templ.Flush, a once handle, a children slot, several of them nested).
type BlockCase struct {
	Kind      string `json:"kind"`       // plain | flush | once | children | nested
	ExprFails bool   `json:"expr_fails"` // the (string, error) expression returns an error
	CompAfter int    `json:"comp_after"` // >= 0: the component fails after writing that many bytes
}

var recBlocks = ev.New("C10", "c10.blocks",
	"a compiled fixture that evaluates a (string, error) expression and renders a component parameter inside the block of templ.Flush, of a once handle, of a children slot and of all three nested, with the expression failing or the component failing after 0, 3 or all of its bytes. "+
		"Oracle: Render returns an error wrapping the cause, the writer holds a prefix of the fault-free document, and a fault-free render afterwards gives the whole document. Enumerated: every kind x fault")

var errBlock = errors.New("failed deliberately inside a block")

func (c BlockCase) render(fault bool) ([]byte, error) {
	f := func() (string, error) {
		if fault && c.ExprFails {
			return "", errBlock
		}
		return "value", nil
	}
	comp := templ.ComponentFunc(func(ctx context.Context, w io.Writer) error {
		const doc = "<i>component</i>"
		if fault && c.CompAfter >= 0 {
			_, _ = io.WriteString(w, doc[:min(c.CompAfter, len(doc))])
			return errBlock
		}
		_, err := io.WriteString(w, doc)
		return err
	})
	var buf bytes.Buffer
	err := fx.ErrInBlocks(c.Kind, f, comp).Render(context.Background(), &buf)
	return buf.Bytes(), err
}

func decideBlock(c BlockCase) (err error) {
	defer func() {
		if x := recover(); x != nil {
			err = fmt.Errorf("panic while rendering: %v", x)
		}
	}()
	ref, rerr := c.render(false)
	if rerr != nil {
		return fmt.Errorf("nothing fails, yet Render returned %v", rerr)
	}
	out, rerr := c.render(true)
	if rerr == nil {
		return fmt.Errorf("%+v: the failure inside the block did not come out of Render (nil); the writer received %q", c, out)
	}
	if !errors.Is(rerr, errBlock) {
		return fmt.Errorf("%+v: render error %q does not wrap the cause", c, rerr)
	}
	if !bytes.HasPrefix(ref, out) {
		return fmt.Errorf("%+v: after the failure the writer holds %q, not a prefix of %q", c, out, ref)
	}
	again, rerr := c.render(false)
	if rerr != nil || !bytes.Equal(again, ref) {
		return fmt.Errorf("%+v: the render after the failed one gave err=%v, %q instead of %q", c, rerr, again, ref)
	}
	return nil
}

func init() {
	ev.RegisterReplay("c10.blocks", func(raw json.RawMessage) error {
		var c BlockCase
		if err := json.Unmarshal(raw, &c); err != nil {
			return err
		}
		return decideBlock(c)
	})
}

func TestPropBlocks(t *testing.T) {
	n := 0
	for _, kind := range []string{"plain", "flush", "once", "children", "nested"} {
		for _, c := range []BlockCase{{Kind: kind, ExprFails: true, CompAfter: -1}, {Kind: kind, CompAfter: 0}, {Kind: kind, CompAfter: 3}, {Kind: kind, CompAfter: 99}} {
			n++
			recBlocks.Eval(1)
			if err := decideBlock(c); err != nil {
				recBlocks.Fail(t, c, "%v", err)
			}
		}
	}
	recBlocks.Enumerated(int64(n))
}
