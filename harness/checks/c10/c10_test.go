package c10

import (
	"bytes"
	"encoding/json"
	"fmt"
	"os"
	"path/filepath"
	"regexp"
	"strings"
	"testing"
	"time"

	"pgregory.net/rapid"

	"verif/batch"
	"verif/ev"
	"verif/oracle/htmltok"
	"verif/tbatch"
	"verif/tc"
	"verif/tgen"
)

func TestMain(m *testing.M) {
	code := m.Run()
	ev.FlushAll()
	os.Exit(code)
}

// Case: one program, one argument tuple, and a history of renders with at most one fault each.
type Case struct {
	File  *tgen.File   `json:"file"`
	Args  tgen.Args    `json:"args"`
	Steps []tbatch.Job `json:"steps"` // K and Args are filled in from the case
}

var rec = ev.New("C10", "c10.failstop",
	"tgen programs (incl. loops over long inputs so that documents cross the 4 KiB and 8 KiB buffer boundaries) are compiled in batches; for each (program, arguments) the fault-free document D is rendered first, then a history of renders in the same process with one injected fault each: "+
		"the writer failing at byte offset k (every k in [0,len] for documents <= 600 bytes; otherwise 0, len, +-3 around the first three multiples of 4096 and the last one, and 16 drawn offsets) in short-write and zero-write style, the context cancelled before the start, a (string,error) expression failing, the nested component parameter failing after j bytes; interleaved with fault-free renders, some of them into the caller's own long-lived bufio.Writers (4 KiB and 8 KiB, with emptied and warm buffer pools). "+
		"Oracle: err == nil => the writer received exactly D; a fault => err != nil wrapping the injected cause (for expression errors a templ.Error with the file name and a line inside that expression), received bytes are a prefix of D, cancelled => zero bytes; every fault-free render after any failure yields exactly D. "+
		"Non-trivial = writer fault with 0 < k < len(D), or expression/nested fault after >=1 byte was written, or a fault-free render directly after a failed one; distinct by (program, arguments, fault)")

type step struct {
	job  tbatch.Job
	kind string // plain | writer | cancel | expr | comp
}

func lineOf(src string, off int) int { return strings.Count(src[:off], "\n") + 1 }

// judge checks one step's result. d0 is the fault-free document, den the denotation for the args
// (with Fail as in the job).
func judge(src string, recs []tgen.Record, fileName string, f *tgen.File, st step, r tbatch.Result, d0 []byte) error {
	a := st.job.Args
	den := tgen.Eval(f, a)
	compReached := bytes.Contains(d0, []byte("<i>comp</i>"))
	if strings.HasPrefix(r.Err, "panic:") {
		return fmt.Errorf("render panicked: %s", r.Err)
	}
	if !bytes.HasPrefix(d0, r.Out) && !(st.kind == "comp" && compReached) && !st.job.ToGoHTML && st.kind != "overlap" {
		return fmt.Errorf("%s: the writer received %q, not a prefix of the document %q", st.kind, clip(r.Out), clip(d0))
	}
	if st.job.ToGoHTML && r.Err != "" {
		// ToGoHTML returns no HTML with an error; the error must be the injected one
		if st.kind == "comp-togohtml" && !r.CompErr {
			return fmt.Errorf("ToGoHTML: nested component failed but err=%q does not wrap its error", r.Err)
		}
		if len(r.Out) != 0 {
			return fmt.Errorf("ToGoHTML returned an error and %d bytes of HTML", len(r.Out))
		}
		if st.kind == "expr" && !r.Boom {
			return fmt.Errorf("ToGoHTML: error %q does not wrap the expression's error", r.Err)
		}
		return nil
	}
	switch st.kind {
	case "comp-togohtml":
		if compReached {
			return fmt.Errorf("ToGoHTML: nested component failed but no error was returned")
		}
		if !bytes.Equal(r.Out, d0) {
			return fmt.Errorf("ToGoHTML returned %q, the document is %q", clip(r.Out), clip(d0))
		}
	case "plain":
		if r.Err != "" {
			return fmt.Errorf("fault-free render failed: %s", r.Err)
		}
		if !bytes.Equal(r.Out, d0) {
			return fmt.Errorf("fault-free render wrote %q, the document is %q", clip(r.Out), clip(d0))
		}
	case "writer":
		k := st.job.WriterFailAt
		if k >= len(d0) {
			if r.Err != "" || !bytes.Equal(r.Out, d0) {
				return fmt.Errorf("writer limit %d >= document length %d, yet err=%q and %d bytes received", k, len(d0), r.Err, len(r.Out))
			}
			return nil
		}
		if r.Err == "" {
			return fmt.Errorf("writer failed at byte %d of %d but Render returned nil (received %d bytes)", k, len(d0), len(r.Out))
		}
		if !r.WriterErr {
			return fmt.Errorf("writer failed at byte %d but the returned error %q does not wrap the writer's error", k, r.Err)
		}
	case "overlap":
		if r.Err != "" {
			return fmt.Errorf("two overlapping fault-free renders: %s", r.Err)
		}
		if !bytes.Equal(r.Ref1, d0) {
			return fmt.Errorf("the same arguments rendered alone gave %q, before that %q", clip(r.Ref1), clip(d0))
		}
		if !bytes.Equal(r.Out, r.Ref1) {
			return fmt.Errorf("a render whose writer was slow to take the first write returned nil, but the writer received %q, the document is %q (a render of other arguments ran meanwhile and writes %q)", clip(r.Out), clip(r.Ref1), clip(r.Ref2))
		}
		if !bytes.Equal(r.Out2, r.Ref2) {
			return fmt.Errorf("a render that ran while another one was parked in its writer wrote %q, alone it writes %q", clip(r.Out2), clip(r.Ref2))
		}
	case "cancel":
		if !r.Canceled || r.Err == "" {
			return fmt.Errorf("context cancelled before the start but err=%q", r.Err)
		}
		if len(r.Out) != 0 {
			return fmt.Errorf("context cancelled before the start but %d bytes were written", len(r.Out))
		}
	case "expr":
		if !den.Err {
			// control flow does not reach a failing call with these arguments
			if r.Err != "" || !bytes.Equal(r.Out, d0) {
				return fmt.Errorf("no failing call is reached, yet err=%q / output differs", r.Err)
			}
			return nil
		}
		if r.Err == "" {
			return fmt.Errorf("expression %s fails but Render returned nil", den.ErrExpr)
		}
		if !r.Boom {
			return fmt.Errorf("render error %q does not wrap the expression's error", r.Err)
		}
		if !r.HasTemplError {
			return fmt.Errorf("render error %q is not a templ.Error with file and line", r.Err)
		}
		if r.ErrFile != fileName {
			return fmt.Errorf("templ.Error names file %q, the template is %q", r.ErrFile, fileName)
		}
		ok := false
		for _, rc := range recs {
			if strings.Contains(rc.Text, "strOrErr(") && r.ErrLine >= lineOf(src, rc.Start) && r.ErrLine <= lineOf(src, rc.End) {
				ok = true
			}
		}
		if !ok {
			return fmt.Errorf("templ.Error line %d is not inside any (string,error) expression of the file", r.ErrLine)
		}
	case "comp":
		if !compReached {
			if r.Err != "" || !bytes.Equal(r.Out, d0) {
				return fmt.Errorf("the component parameter is not rendered, yet err=%q / output differs", r.Err)
			}
			return nil
		}
		if r.Err == "" || !r.CompErr {
			return fmt.Errorf("nested component failed but err=%q does not wrap its error", r.Err)
		}
		// received = D up to the first marker + the j bytes the component wrote
		i := bytes.Index(d0, []byte("<i>comp</i>"))
		j := min(st.job.CompFailAfter, len("<i>comp</i>"))
		want := d0[:i+j]
		// A capture() callee renders its block into a buffer of its own and hands nothing on when
		// the block fails: then the writer has everything before that callee's <u>.
		inCapture := strings.Contains(src, "@capture()") && bytes.HasPrefix(want, r.Out) && bytes.HasPrefix(d0[len(r.Out):], []byte("<u>"))
		if !bytes.Equal(r.Out, want) && !inCapture {
			return fmt.Errorf("nested component failed after %d bytes: writer received %q, want %q", j, clip(r.Out), clip(want))
		}
	}
	return nil
}

func clip(b []byte) string {
	if len(b) > 160 {
		return fmt.Sprintf("%s...%s (%d bytes)", b[:80], b[len(b)-60:], len(b))
	}
	return string(b)
}

func genSteps(t *rapid.T, a tgen.Args, docLen int, exhaustive bool) []step {
	var out []step
	plain := func() { out = append(out, step{job: tbatch.Plain(0, a), kind: "plain"}) }
	writer := func(k int, zero bool) {
		j := tbatch.Plain(0, a)
		j.WriterFailAt, j.Zero = k, zero
		out = append(out, step{job: j, kind: "writer"})
	}
	var offsets []int
	if exhaustive && docLen <= 600 {
		for k := 0; k <= docLen; k++ {
			offsets = append(offsets, k)
		}
	} else {
		offsets = append(offsets, 0, docLen, max(0, docLen-1))
		// around the first three buffer boundaries and the last one below the document's end
		bounds := []int{4096, 8192, 12288, docLen / 4096 * 4096}
		for _, m := range bounds {
			if m <= 0 || m > docLen+4 {
				continue
			}
			for d := -3; d <= 3; d++ {
				offsets = append(offsets, m+d)
			}
		}
		for i := 0; i < 16; i++ {
			offsets = append(offsets, rapid.IntRange(0, max(docLen, 1)).Draw(t, "k"))
		}
	}
	for i, k := range offsets {
		writer(k, i%2 == 1)
		if i%7 == 0 {
			plain()
		}
	}
	// the caller's own long-lived bufio.Writers (a writer templ might be tempted to adopt), with
	// emptied and warm buffer pools, interleaved with other destinations
	bufio := func(slot int, gc bool) {
		j := tbatch.Plain(0, a)
		j.Bufio, j.GC = slot, gc
		out = append(out, step{job: j, kind: "plain"})
	}
	bufio(1, true)
	plain()
	bufio(1, false)
	bufio(2, true)
	writer(max(0, docLen/2), false)
	bufio(2, false)
	bufio(1, false)
	plain()
	// templ.ToGoHTML renders into the root package's pooled buffer: a failed one, then good ones
	{
		fa := a
		fa.Fail = true
		jf := tbatch.Plain(0, fa)
		jf.ToGoHTML = true
		out = append(out, step{job: jf, kind: "expr"})
		jc := tbatch.Plain(0, a)
		jc.ToGoHTML, jc.CompFailAfter = true, 5
		out = append(out, step{job: jc, kind: "comp-togohtml"})
		jp := tbatch.Plain(0, a)
		jp.ToGoHTML = true
		out = append(out, step{job: jp, kind: "plain"}, step{job: jp, kind: "plain"})
	}
	// two fault-free renders overlap on one processor: the first is parked in its writer
	{
		jo := tbatch.Plain(0, a)
		jo.Overlap = true
		out = append(out, step{job: jo, kind: "overlap"})
		plain()
	}
	// other faults, interleaved with fault-free renders
	j := tbatch.Plain(0, a)
	j.Cancelled = true
	out = append(out, step{job: j, kind: "cancel"})
	plain()
	// the same faults when the caller hands Render a buffer it took from templ's runtime itself
	{
		jr := tbatch.Plain(0, a)
		jr.RuntimeBuf = true
		out = append(out, step{job: jr, kind: "plain"})
		jc := tbatch.Plain(0, a)
		jc.Cancelled, jc.RuntimeBuf = true, true
		out = append(out, step{job: jc, kind: "cancel"})
		jw := tbatch.Plain(0, a)
		jw.RuntimeBuf, jw.WriterFailAt = true, max(0, docLen/3)
		out = append(out, step{job: jw, kind: "writer"})
		out = append(out, step{job: jr, kind: "plain"})
	}
	fa := a
	fa.Fail = true
	out = append(out, step{job: tbatch.Plain(0, fa), kind: "expr"})
	plain()
	for _, after := range []int{0, 1, 5, 11} {
		j := tbatch.Plain(0, a)
		j.CompFailAfter = after
		out = append(out, step{job: j, kind: "comp"})
	}
	plain()
	return out
}

var genBigArgs = rapid.Custom(func(t *rapid.T) tgen.Args {
	a := tgen.GenArgs().Draw(t, "args")
	a.Fail = false
	switch rapid.IntRange(0, 3).Draw(t, "size") {
	case 0:
		a.N = rapid.SampledFrom([]int{20, 60, 150}).Draw(t, "bigN")
	case 1:
		n := rapid.SampledFrom([]int{5, 40, 120}).Draw(t, "nxs")
		a.XS = nil
		for i := 0; i < n; i++ {
			a.XS = append(a.XS, strings.Repeat("x<y&", rapid.SampledFrom([]int{1, 30, 400}).Draw(t, "rep")))
		}
	case 2:
		a.S1 = strings.Repeat("lorem & ipsum ", rapid.SampledFrom([]int{10, 300, 650}).Draw(t, "s1rep"))
	}
	return a
})

func runCase(bin *tbatch.Binary, k int, f *tgen.File, steps []step) (int, error) {
	// the fault-free document first, then the history
	jobs := []tbatch.Job{tbatch.Plain(k, steps[0].job.Args)}
	jobs[0].Args.Fail = false
	for _, st := range steps {
		j := st.job
		j.K = k
		jobs = append(jobs, j)
	}
	res, err := bin.Run(jobs, nil, 900*time.Second)
	if err != nil {
		return 0, fmt.Errorf("harness: %v", err)
	}
	if res[0].Err != "" {
		return 0, nil // the program fails even without injected faults (not possible with Fail=false)
	}
	d0 := res[0].Out
	// "the full document" is what the template denotes for these arguments, not merely what the
	// first render happened to write: compared with the reference interpreter
	a0 := jobs[0].Args
	if den0 := tgen.Eval(f, a0); !den0.Err {
		c, cerr := htmltok.Canon(d0)
		if cerr != nil {
			return 0, fmt.Errorf("the fault-free document does not tokenize: %v", cerr)
		}
		if !den0.Regexp().MatchString(c) {
			return 0, fmt.Errorf("the fault-free render wrote %d bytes that are not the document the template denotes for %d-byte s1 / %d-byte s2 / %d xs (pieces missing, repeated or out of order): got %q", len(d0), len(a0.S1), len(a0.S2), len(a0.XS), clip(d0))
		}
	}
	prevFailed := false
	for i, st := range steps {
		r := res[i+1]
		rec.Eval(1)
		rec.Class(st.kind)
		nt := (st.kind == "writer" && st.job.WriterFailAt > 0 && st.job.WriterFailAt < len(d0)) ||
			((st.kind == "expr" || st.kind == "comp") && len(r.Out) > 0 && r.Err != "") || (st.kind == "plain" && prevFailed)
		if nt {
			rec.NonTrivial(fmt.Sprintf("%s|%v|%d|%v|%d", bin.Sources[k], st.job.Args, st.job.WriterFailAt, st.kind, st.job.CompFailAfter), func() any {
				return map[string]any{"fault": st.kind, "writer_fail_at": st.job.WriterFailAt, "zero_write": st.job.Zero, "document_bytes": len(d0), "received_bytes": len(r.Out), "err": r.Err}
			})
		}
		prevFailed = r.Err != ""
		if err := judge(bin.Sources[k], bin.Records[k], fmt.Sprintf("p%d.templ", k), f, st, r, d0); err != nil {
			return i, err
		}
	}
	return 0, nil
}

func decide(c Case) error {
	tgen.Normalize(c.File)
	bin, err := tbatch.Build([]*tgen.File{c.File}, batch.Options{})
	if err != nil {
		if _, ok := err.(*batch.GenError); ok {
			return nil
		}
		panic("harness: " + err.Error())
	}
	defer bin.Close()
	var steps []step
	for _, j := range c.Steps {
		kind := "plain"
		switch {
		case j.WriterFailAt >= 0:
			kind = "writer"
		case j.Cancelled:
			kind = "cancel"
		case j.CompFailAfter >= 0:
			kind = "comp"
		case j.Args.Fail:
			kind = "expr"
		}
		steps = append(steps, step{job: j, kind: kind})
	}
	if len(steps) == 0 {
		return nil
	}
	_, err = runCase(bin, 0, c.File, steps)
	return err
}

func init() {
	ev.RegisterReplay("c10.failstop", func(raw json.RawMessage) error {
		var bc BatchCase
		if err := json.Unmarshal(raw, &bc); err == nil && len(bc.Files) > 0 {
			return decideBatch(bc)
		}
		var c Case
		if err := json.Unmarshal(raw, &c); err != nil {
			return err
		}
		return decide(c)
	})
}

// BatchCase: a directory of programs generated by one run of the templ generate command.
type BatchCase struct {
	Files []*tgen.File `json:"files"`
}

var fileNameLit = regexp.MustCompile("FileName: `([^`]*)`")

// checkGenerated: the file name compiled into every templ.Error of p<i>_templ.go is p<i>.templ, and
// the run of the command was free of data races (this process is built with the race detector).
func checkGenerated(bin *tbatch.Binary, n int) error {
	if r := ev.RaceCheck(); r != "" {
		return fmt.Errorf("templ generate over a directory of %d templates: the race detector reported\n%s", n, r)
	}
	for i := 0; i < n; i++ {
		b, err := os.ReadFile(filepath.Join(bin.Dir, fmt.Sprintf("p%d_templ.go", i)))
		if err != nil {
			return fmt.Errorf("templ generate left no p%d_templ.go: %v", i, err)
		}
		for _, m := range fileNameLit.FindAllStringSubmatch(string(b), -1) {
			if want := fmt.Sprintf("p%d.templ", i); m[1] != want {
				return fmt.Errorf("p%d_templ.go reports expression errors with file name %q, the template is %q", i, m[1], want)
			}
		}
	}
	return nil
}

func decideBatch(c BatchCase) error {
	for _, f := range c.Files {
		tgen.Normalize(f)
	}
	for round := 0; round < 5; round++ { // which worker takes which file is up to the scheduler
		bin, err := tbatch.Build(c.Files, batch.Options{ViaCommand: true})
		if err != nil {
			if _, ok := err.(*batch.GenError); ok {
				return nil
			}
			panic("harness: " + err.Error())
		}
		err = checkGenerated(bin, len(c.Files))
		bin.Close()
		if err != nil {
			return err
		}
	}
	return nil
}

func TestPropFailStop(t *testing.T) {
	perBatch := ev.Pick(20, 40)
	g := tgen.GenFile(tgen.DefaultOptions)
	rapid.Check(t, func(t *rapid.T) {
		var files []*tgen.File
		for len(files) < perBatch {
			f := g.Draw(t, "file")
			src, _ := tgen.Print(f, "P")
			if _, _, err := tc.Generate(src, "p.templ"); err != nil {
				continue
			}
			files = append(files, f)
		}
		// half of the batches are generated the way users generate them: by `templ generate` over the
		// directory with its pool of workers
		viaCmd := rapid.Bool().Draw(t, "viaCommand")
		bin, err := tbatch.Build(files, batch.Options{ViaCommand: viaCmd})
		if err != nil {
			panic("harness: " + err.Error())
		}
		defer bin.Close()
		if viaCmd {
			rec.Class("batch generated by the templ generate command")
			if err := checkGenerated(bin, len(files)); err != nil {
				rec.Fail(t, BatchCase{Files: files}, "%v", err)
			}
		}
		for k, f := range files {
			a := genBigArgs.Draw(t, "args")
			// nested loops multiply: keep the iteration counts at about 150 per path, so that the
			// document stays in the megabyte range
			if d := tgen.LoopDepth(f); d > 1 {
				limit := []int{150, 150, 12, 5, 3}[min(d, 4)]
				a.N = min(a.N, limit)
				if len(a.XS) > limit {
					a.XS = a.XS[:limit]
				}
			}
			// learn the document length with a first plain render (cheap: same process start)
			res, err := bin.Run([]tbatch.Job{tbatch.Plain(k, a)}, nil, 600*time.Second)
			if err != nil {
				panic("harness: " + err.Error())
			}
			if res[0].Err != "" {
				rec.Fail(t, Case{File: f, Args: a}, "fault-free render failed: %s\n%s", res[0].Err, bin.Sources[k])
			}
			steps := genSteps(t, a, len(res[0].Out), true)
			if i, err := runCase(bin, k, f, steps); err != nil {
				var js []tbatch.Job
				for _, st := range steps[:i+1] {
					js = append(js, st.job)
				}
				// keep the replay small: the failing step and the one before it
				if len(js) > 2 {
					js = js[len(js)-2:]
				}
				rec.Fail(t, Case{File: f, Args: a, Steps: js}, "%v\nargs %+v\n%s", err, a, clipS(bin.Sources[k]))
			}
		}
	})
}

func clipS(s string) string {
	if len(s) > 3000 {
		return s[:3000] + "..."
	}
	return s
}

func TestReplay(t *testing.T) {
	for _, r := range ev.RunReplays() {
		t.Logf("%+v", r)
	}
}
