package c10

import (
	"bytes"
	"context"
	"encoding/json"
	"errors"
	"fmt"
	"testing"

	"github.com/a-h/templ"
	"pgregory.net/rapid"

	"verif/ev"
	"verif/fx"
	"verif/oracle/htmltok"
)

// SV is a value for a style attribute: the attribute takes strings, safe css, maps, key-values,
// functions returning any of those (optionally with an error) and slices of any of those, nested.
type SV struct {
	Kind  string `json:"kind"` // s | css | map | kv | kvb | fn | fn1 | fnany | slice | fslice | sslice | int
	Fail  bool   `json:"fail,omitempty"`
	Items []SV   `json:"items,omitempty"`
}

var errStyleBoom = errors.New("style value failed deliberately")

func (v SV) build(failing bool) any {
	switch v.Kind {
	case "s":
		return "color:red"
	case "css":
		return templ.SafeCSS("margin:0")
	case "map":
		return map[string]string{"width": "1px"}
	case "kv":
		return templ.KV("color", "blue")
	case "kvb":
		return templ.KV("padding:0", true)
	case "fn":
		fail := v.Fail && failing
		return func() (string, error) {
			if fail {
				return "", errStyleBoom
			}
			return "display:block", nil
		}
	case "fn1":
		return func() string { return "top:0" }
	case "fnany":
		fail := v.Fail && failing
		var inner any = "left:0"
		if len(v.Items) > 0 {
			inner = v.Items[0].build(failing)
		}
		return func() (any, error) {
			if fail {
				return nil, errStyleBoom
			}
			return inner, nil
		}
	case "slice":
		out := []any{}
		for _, it := range v.Items {
			out = append(out, it.build(failing))
		}
		return out
	case "fslice":
		out := []func() (string, error){}
		for _, it := range v.Items {
			if f, ok := it.build(failing).(func() (string, error)); ok {
				out = append(out, f)
			}
		}
		return out
	case "sslice":
		out := [][]any{}
		for _, it := range v.Items {
			if s, ok := it.build(failing).([]any); ok {
				out = append(out, s)
			}
		}
		return out
	}
	return 42
}

// fails: a function of the value returns an error when it is called.
func (v SV) fails() bool {
	switch v.Kind {
	case "fn":
		return v.Fail
	case "fnany":
		if v.Fail {
			return true
		}
	case "fslice":
		for _, it := range v.Items {
			if it.Kind == "fn" && it.Fail {
				return true
			}
		}
		return false
	case "sslice":
		for _, it := range v.Items {
			if it.Kind == "slice" && it.fails() {
				return true
			}
		}
		return false
	case "slice":
	default:
		return false
	}
	for _, it := range v.Items {
		if it.fails() {
			return true
		}
	}
	return false
}

// StyleCase: one of the style fixtures rendered with the values.
type StyleCase struct {
	Fixture string `json:"fixture"` // one | args | loop
	Values  []SV   `json:"values"`
}

var recStyle = ev.New("C10", "c10.style-values",
	"compiled fixtures whose style attribute takes any value (one value, two arguments, one element per value in a loop) are rendered with generated values: strings, safe css, maps, key-values, func() string, func() (string, error), func() (any, error) returning a nested value, []any, []func() (string, error) and [][]any, nested up to depth 3, with at most a few functions that return an error. "+
		"Oracle: if a function that returns an error is part of the value, Render returns an error wrapping that cause and the writer holds a prefix of the document the same values give when nothing fails; otherwise Render returns nil and the tokenizer sees the elements with one style attribute each. Non-trivial = the failing function sits inside a slice or is returned by another function; distinct by case")

func (c StyleCase) render(failing bool) ([]byte, error) {
	var comp templ.Component
	vals := make([]any, len(c.Values))
	for i, v := range c.Values {
		vals[i] = v.build(failing)
	}
	for len(vals) < 2 {
		vals = append(vals, "color:red")
	}
	switch c.Fixture {
	case "args":
		comp = fx.ErrStyleArgs(vals[0], vals[1])
	case "loop":
		comp = fx.ErrStyleInLoop(vals)
	default:
		comp = fx.ErrStyle(vals[0])
	}
	var buf bytes.Buffer
	err := comp.Render(context.Background(), &buf)
	return buf.Bytes(), err
}

func (c StyleCase) used() []SV {
	switch c.Fixture {
	case "args":
		return c.Values[:min(2, len(c.Values))]
	case "loop":
		return c.Values
	}
	return c.Values[:min(1, len(c.Values))]
}

func decideStyle(c StyleCase) (err error) {
	defer func() {
		if x := recover(); x != nil {
			err = fmt.Errorf("panic while rendering: %v", x)
		}
	}()
	ref, rerr := c.render(false)
	if rerr != nil {
		return fmt.Errorf("no function fails, yet Render returned %v", rerr)
	}
	if _, terr := htmltok.Tokens(ref); terr != nil {
		return fmt.Errorf("tokenizer error on %q: %v", ref, terr)
	}
	mustFail := false
	for _, v := range c.used() {
		if v.fails() {
			mustFail = true
		}
	}
	out, rerr := c.render(true)
	if !mustFail {
		if rerr != nil || !bytes.Equal(out, ref) {
			return fmt.Errorf("no function fails, yet the second render gave err=%v, %q instead of %q", rerr, out, ref)
		}
		return nil
	}
	if rerr == nil {
		return fmt.Errorf("a function inside the style value returned an error, but Render returned nil; the writer received %q", clip(out))
	}
	if !errors.Is(rerr, errStyleBoom) {
		return fmt.Errorf("render error %q does not wrap the error the function returned", rerr)
	}
	if !bytes.HasPrefix(ref, out) {
		return fmt.Errorf("after the failure the writer holds %q, not a prefix of the document %q", clip(out), clip(ref))
	}
	return nil
}

func init() {
	ev.RegisterReplay("c10.style-values", func(raw json.RawMessage) error {
		var c StyleCase
		if err := json.Unmarshal(raw, &c); err != nil {
			return err
		}
		return decideStyle(c)
	})
}

func genSV(depth int, allowFail bool) *rapid.Generator[SV] {
	return rapid.Custom(func(t *rapid.T) SV {
		kinds := []string{"s", "css", "map", "kv", "kvb", "fn", "fn", "fn1", "int"}
		if depth > 0 {
			kinds = append(kinds, "slice", "slice", "slice", "fslice", "sslice", "fnany", "fnany")
		}
		v := SV{Kind: rapid.SampledFrom(kinds).Draw(t, "kind")}
		switch v.Kind {
		case "fn":
			v.Fail = allowFail && rapid.IntRange(0, 2).Draw(t, "fail") == 0
		case "fnany":
			v.Fail = allowFail && rapid.IntRange(0, 5).Draw(t, "fail") == 0
			v.Items = []SV{genSV(depth-1, allowFail).Draw(t, "inner")}
		case "slice":
			v.Items = rapid.SliceOfN(genSV(depth-1, allowFail), 0, 4).Draw(t, "items")
		case "fslice":
			for i, n := 0, rapid.IntRange(0, 3).Draw(t, "nfn"); i < n; i++ {
				v.Items = append(v.Items, SV{Kind: "fn", Fail: allowFail && rapid.IntRange(0, 2).Draw(t, "ffail") == 0})
			}
		case "sslice":
			for i, n := 0, rapid.IntRange(0, 3).Draw(t, "nss"); i < n; i++ {
				v.Items = append(v.Items, SV{Kind: "slice", Items: rapid.SliceOfN(genSV(depth-2, allowFail), 0, 3).Draw(t, "ssitems")})
			}
		}
		return v
	})
}

func TestPropStyleValues(t *testing.T) {
	rapid.Check(t, func(t *rapid.T) {
		c := StyleCase{Fixture: rapid.SampledFrom([]string{"one", "one", "args", "loop"}).Draw(t, "fixture")}
		n := map[string]int{"one": 1, "args": 2}[c.Fixture]
		if n == 0 {
			n = rapid.IntRange(0, 4).Draw(t, "nvals")
		}
		for i := 0; i < n; i++ {
			c.Values = append(c.Values, genSV(3, true).Draw(t, "value"))
		}
		recStyle.Eval(1)
		nested := false
		for _, v := range c.Values {
			if v.Kind != "fn" && v.fails() {
				nested = true
			}
		}
		if nested {
			recStyle.NonTrivial(fmt.Sprint(c), func() any { return c })
		}
		if err := decideStyle(c); err != nil {
			recStyle.Fail(t, c, "%v", err)
		}
	})
}
