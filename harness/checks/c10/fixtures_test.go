package c10

import (
	"bytes"
	"context"
	"encoding/json"
	"errors"
	"fmt"
	"io"
	"net/http"
	"net/http/httptest"
	"testing"

	"github.com/a-h/templ"
	"pgregory.net/rapid"

	"verif/ev"
	"verif/fx"
)

// FixCase: a history over compiled fixture components that use templ's per-render registries
// (script templates, css classes, once handles) - one render whose writer fails at a byte
// offset, then fault-free renders through every way templ offers: Render, the buffered
// templ.Handler and templ.ToGoHTML (the last two share the root package's byte-buffer pool).
type FixCase struct {
	Comp   int   `json:"comp"`
	FailAt int   `json:"fail_at"`
	Zero   bool  `json:"zero"`            // the failing Write accepts nothing
	Later  []int `json:"later,omitempty"` // components rendered afterwards (indices)
}

var recFix = ev.New("C10", "c10.fixtures",
	"compiled fixture components with script templates, css classes, once handles, wrappers and a JSON script (some longer than templ's 4 KiB buffer) are rendered into a writer that fails at a byte offset - every offset of short documents in the thorough tier, offsets around multiples of 4096 and drawn ones otherwise - and afterwards the same and other components are rendered with Render, through the buffered templ.Handler and through templ.ToGoHTML. "+
		"Oracle: the failed render returns the writer's error and the writer holds a prefix of the document; every later render gives exactly the document of its component, whichever way it is rendered. Non-trivial = the writer fails inside the document; distinct by case")

type fixComp struct {
	name string
	mk   func() templ.Component
}

var fixUses = []fx.EUse{
	{Kind: "script-call", A: 0, S: "x"}, {Kind: "on-attr", A: 1}, {Kind: "class-direct", A: 0}, {Kind: "class-mixed", A: 2, B: 1, N: 5},
	{Kind: "once-block", A: 0, Kids: []fx.EUse{{Kind: "class-kv", A: 1, On: true}}}, {Kind: "on-attr2", A: 0, B: 2, N: 3, S: "y"}, {Kind: "jsfunc-attr", S: "z"},
}

var fixTable = []fixComp{
	{"EUses", func() templ.Component { return fx.EUses(fixUses) }},
	{"EUsesLong", func() templ.Component {
		var long []fx.EUse
		for i := 0; i < 30; i++ {
			long = append(long, fixUses...)
			long = append(long, fx.EUse{Kind: "on-attr", A: i % 3, N: 100 + i}, fx.EUse{Kind: "class-direct", A: 2, N: 100 + i})
		}
		return fx.EUses(long)
	}},
	{"ScriptMixed", func() templ.Component { return fx.ScriptMixed(map[string]any{"a": []int{1, 2}}, "it's") }},
	{"CSSComponent", func() templ.Component { return fx.CSSComponent("two", "3px") }},
	{"JSONScr", func() templ.Component { return fx.JSONScr(map[string]string{"k": "</script>"}) }},
	{"TextInControl", func() templ.Component { return fx.TextInControl("<s>&", []string{"a", "b<", "c"}) }},
	// a script template rendered as the outermost component: it writes straight to the caller's
	// writer, without templ's buffer in between
	{"BareScript", func() templ.Component { return fx.EScript(0, 1, "x") }},
	{"BareScript2", func() templ.Component { return fx.EScript(2, 7, "</script>") }},
	{"Joined", func() templ.Component {
		return templ.Join(fx.EScript(1, 1, "y"), fx.TextInControl("t", []string{"a"}), fx.EScript(0, 1, "x"))
	}},
}

var errFix = errors.New("writer failed deliberately")

type fixWriter struct {
	buf    bytes.Buffer
	failAt int
	zero   bool
	failed bool
}

func (w *fixWriter) Write(p []byte) (int, error) {
	if w.failed {
		return 0, errFix
	}
	if w.buf.Len()+len(p) > w.failAt {
		n := w.failAt - w.buf.Len()
		if w.zero {
			n = 0
		}
		w.buf.Write(p[:n])
		w.failed = true
		return n, errFix
	}
	return w.buf.Write(p)
}

var fixRefs [][]byte

func fixRef(i int) []byte {
	if fixRefs == nil {
		for _, c := range fixTable {
			var b bytes.Buffer
			if err := c.mk().Render(context.Background(), &b); err != nil {
				panic("fixture " + c.name + ": " + err.Error())
			}
			fixRefs = append(fixRefs, b.Bytes())
		}
	}
	return fixRefs[i%len(fixTable)]
}

func decideFix(c FixCase) (err error) {
	defer func() {
		if x := recover(); x != nil {
			err = fmt.Errorf("panic: %v", x)
		}
	}()
	ci := c.Comp % len(fixTable)
	want := fixRef(ci)
	w := &fixWriter{failAt: c.FailAt, zero: c.Zero}
	rerr := fixTable[ci].mk().Render(context.Background(), w)
	if c.FailAt < len(want) {
		if rerr == nil || !errors.Is(rerr, errFix) {
			return fmt.Errorf("%s: the writer failed at byte %d of %d but Render returned %v", fixTable[ci].name, c.FailAt, len(want), rerr)
		}
		if !bytes.HasPrefix(want, w.buf.Bytes()) {
			return fmt.Errorf("%s: the failed render wrote %q, not a prefix of its document", fixTable[ci].name, clip(w.buf.Bytes()))
		}
	} else if rerr != nil || !bytes.Equal(w.buf.Bytes(), want) {
		return fmt.Errorf("%s: writer limit beyond the document, yet err=%v / output differs", fixTable[ci].name, rerr)
	}
	later := append([]int{c.Comp}, c.Later...)
	for _, li := range later {
		li %= len(fixTable)
		name, doc := fixTable[li].name, fixRef(li)
		// through the buffered handler
		rr := httptest.NewRecorder()
		templ.Handler(fixTable[li].mk()).ServeHTTP(rr, httptest.NewRequest("GET", "/", nil))
		if rr.Code != http.StatusOK || !bytes.Equal(rr.Body.Bytes(), doc) {
			return fmt.Errorf("after %s failed at byte %d, templ.Handler serves %s as status %d body %q; the document is %q", fixTable[ci].name, c.FailAt, name, rr.Code, clip(rr.Body.Bytes()), clip(doc))
		}
		// through ToGoHTML
		h, herr := templ.ToGoHTML(context.Background(), fixTable[li].mk())
		if herr != nil || string(h) != string(doc) {
			return fmt.Errorf("after %s failed at byte %d, templ.ToGoHTML gives %s as %q (err %v); the document is %q", fixTable[ci].name, c.FailAt, name, clip([]byte(h)), herr, clip(doc))
		}
		// plain Render
		var b bytes.Buffer
		if err := fixTable[li].mk().Render(context.Background(), io.Writer(&b)); err != nil || !bytes.Equal(b.Bytes(), doc) {
			return fmt.Errorf("after %s failed at byte %d, Render gives %s as %q (err %v); the document is %q", fixTable[ci].name, c.FailAt, name, clip(b.Bytes()), err, clip(doc))
		}
	}
	return nil
}

func init() {
	ev.RegisterReplay("c10.fixtures", func(raw json.RawMessage) error {
		var c FixCase
		if err := json.Unmarshal(raw, &c); err != nil {
			return err
		}
		return decideFix(c)
	})
}

func TestPropFixtureHistories(t *testing.T) {
	rapid.Check(t, func(t *rapid.T) {
		c := FixCase{Comp: rapid.IntRange(0, len(fixTable)-1).Draw(t, "comp"), Zero: rapid.Bool().Draw(t, "zero")}
		n := len(fixRef(c.Comp))
		switch rapid.IntRange(0, 3).Draw(t, "where") {
		case 0:
			c.FailAt = rapid.IntRange(0, n).Draw(t, "any")
		case 1:
			// around templ's buffer boundaries
			k := rapid.IntRange(1, max(1, n/4096)).Draw(t, "multiple")
			c.FailAt = min(n, max(0, k*4096+rapid.IntRange(-40, 40).Draw(t, "delta")))
		case 2:
			c.FailAt = rapid.IntRange(0, min(n, 300)).Draw(t, "early")
		default:
			c.FailAt = max(0, n-rapid.IntRange(0, 200).Draw(t, "late"))
		}
		c.Later = rapid.SliceOfN(rapid.IntRange(0, len(fixTable)-1), 0, 3).Draw(t, "later")
		recFix.Eval(1)
		recFix.Class(fixTable[c.Comp].name)
		if c.FailAt > 0 && c.FailAt < n {
			recFix.NonTrivial(fmt.Sprint(c), func() any { return c })
		}
		if err := decideFix(c); err != nil {
			recFix.Fail(t, c, "%v", err)
		}
	})
}
