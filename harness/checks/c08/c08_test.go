package c08

import (
	"encoding/json"
	"fmt"
	"io"
	"log/slog"
	"os"
	"path/filepath"
	"strings"
	"testing"

	"github.com/a-h/templ/cmd/templ/fmtcmd"
	"github.com/a-h/templ/parser/v2"
	"pgregory.net/rapid"

	"verif/corpus"
	"verif/ev"
	"verif/oneline"
	"verif/oracle/gonorm"
	"verif/tc"
	"verif/tgen"
)

func TestMain(m *testing.M) {
	code := m.Run()
	ev.FlushAll()
	os.Exit(code)
}

type Case struct {
	Source ev.QStr `json:"source"`
	// ViaCmd: formatted by the `templ fmt <dir>` code path instead of parse + write.
	ViaCmd bool `json:"via_cmd,omitempty"`
}

var rec = ev.New("C08", "c08.format-preserves",
	"accepted templ files in many spellings (tgen programs with the layout dimension turned up: single-line / multi-line elements, attribute-per-line, padding in { }, missing/extra whitespace between node kinds, constant attributes with character references and both quote kinds or unquoted, legacy call syntax, comments, multi-line expressions, blank lines; plus the repository's .templ files and formatter test inputs): "+
		"fmt(x) (what `templ fmt` does: parse, then write) must be accepted too, and the Go generated from x and from fmt(x), both gofmt-ed and reduced to token streams (comments and layout dropped, templ.Error Line/Col masked), must be identical - the same program, hence the same bytes for all arguments. "+
		"Non-trivial = fmt(x) != x; distinct by source")

func decide(src string) (changed bool, err error) { return decideWith(src, tc.Format) }

// formatViaCmd formats the source the way `templ fmt <dir>` does: the file is written to a
// directory and formatted in place by fmtcmd.Run (parse, import clean-up - which generates code
// from the parse tree -, then write of the same tree).
func formatViaCmd(src string) (string, error) {
	base := os.Getenv("VERIF_SCRATCH")
	if base == "" {
		base = os.TempDir()
	}
	dir, derr := os.MkdirTemp(base, "c08fmt-")
	if derr != nil {
		panic(derr)
	}
	defer os.RemoveAll(dir)
	name := filepath.Join(dir, "f.templ")
	if err := os.WriteFile(name, []byte(src), 0o644); err != nil {
		panic(err)
	}
	if err := fmtcmd.Run(slog.New(slog.NewTextHandler(io.Discard, nil)), strings.NewReader(""), io.Discard, fmtcmd.Arguments{Files: []string{dir}, WorkerCount: 1}); err != nil {
		return "", err
	}
	b, err := os.ReadFile(name)
	return string(b), err
}

func decideWith(src string, format func(string) (string, error)) (changed bool, err error) {
	g1, _, gerr := tc.Generate(src, "f.templ")
	if gerr != nil {
		return false, nil // not accepted: outside the domain
	}
	formatted, ferr := format(src)
	if ferr != nil {
		return false, fmt.Errorf("an accepted file cannot be formatted: %v", ferr)
	}
	changed = formatted != src
	g2, stage, gerr := tc.Generate(formatted, "f.templ")
	if gerr != nil {
		return changed, fmt.Errorf("the formatted file is not accepted (%s): %v\n--- formatted:\n%s", stage, gerr, formatted)
	}
	t1, err := gonorm.Tokens(g1.Go, false)
	if err != nil {
		panic("harness: " + err.Error())
	}
	t2, err := gonorm.Tokens(g2.Go, false)
	if err != nil {
		panic("harness: " + err.Error())
	}
	if d := gonorm.Diff(t1, t2); d != "" {
		return changed, fmt.Errorf("formatting changed the generated program: %s\n--- formatted:\n%s", d, formatted)
	}
	return changed, nil
}

func init() {
	ev.RegisterReplay("c08.format-preserves", func(raw json.RawMessage) error {
		var c Case
		if err := json.Unmarshal(raw, &c); err != nil {
			return err
		}
		if c.ViaCmd {
			_, err := decideWith(string(c.Source), formatViaCmd)
			return err
		}
		_, err := decide(string(c.Source))
		return err
	})
}

// KnownInlineBroken: an inline element whose children span several lines, or an if/for/switch
// statement, directly follows (no whitespace) inline content. The formatter treats "children span lines" as block layout and puts
// the element on its own line, the generator treats the element as inline and renders the new line
// break as a space. The repository's own formatter golden test pins this output.
const KnownInlineBroken = "c08-inline-element-with-line-spanning-children-glued-to-inline-sibling"

// hasLineEndingChild: one of the children always ends its line when the formatter writes it
// (everything that carries no trailing-space information: calls, children, comments, control
// flow, script and style elements), so the formatter lays the element out as a block.
func hasLineEndingChild(ns []parser.Node) bool {
	for _, n := range ns {
		if _, ws := n.(parser.Whitespace); ws {
			continue
		}
		if _, ok := n.(parser.WhitespaceTrailer); !ok {
			return true
		}
		// an element laid out as a block takes its parent with it
		if el, ok := n.(parser.Element); ok && (el.IndentChildren || hasLineEndingChild(el.Children)) {
			return true
		}
	}
	return false
}

func inKnownInlineBroken(src string) bool {
	tf, err := parser.ParseString(src)
	if err != nil {
		return false
	}
	found := false
	var lists func(ns []parser.Node)
	inlineOrText := func(n parser.Node) bool {
		switch n := n.(type) {
		case parser.Text, parser.StringExpression:
			return true
		case parser.Element:
			return !n.IsBlockElement()
		}
		return false
	}
	lists = func(ns []parser.Node) {
		for i, n := range ns {
			if c, ok := n.(parser.CompositeNode); ok {
				lists(c.ChildNodes())
			}
			if i+1 >= len(ns) {
				continue
			}
			wt, ok := n.(parser.WhitespaceTrailer)
			if !ok || wt.Trailing() != parser.SpaceNone || !inlineOrText(n) {
				continue
			}
			switch y := ns[i+1].(type) {
			case parser.Element:
				if !y.IsBlockElement() && (y.IndentChildren || hasLineEndingChild(y.Children)) {
					found = true
				}
			case parser.IfExpression, parser.ForExpression, parser.SwitchExpression:
				// "</b>if c {": the formatter always starts a statement on a new line, the generator
				// treats statements as inline content
				found = true
			}
		}
	}
	for _, n := range tf.Nodes {
		if t, ok := n.(parser.HTMLTemplate); ok {
			lists(t.Children)
		}
	}
	return found
}

// KnownBodyWhitespace: inside the body of an if / for / switch case / component-call block the
// generator renders every interior Whitespace node as a space (only the first and last are
// stripped; element and template bodies strip all of them) and makes the body's last node emit its
// trailing space when inline content follows the block. `templ fmt` always puts such nodes on
// their own lines, so a spelling that lacks one of these pieces of whitespace - "}{ x }", "@c()<b>",
// a node at column 0 right after a // comment, "<b>x</b>}" - renders differently after formatting.
const KnownBodyWhitespace = "c08-missing-whitespace-in-control-flow-body"

func inKnownBodyWhitespace(src string) bool {
	tf, err := parser.ParseString(src)
	if err != nil {
		return false
	}
	found := false
	var body func(ns []parser.Node)
	var list func(ns []parser.Node)
	body = func(ns []parser.Node) {
		if len(ns) > 0 {
			// the last node directly followed by "}"
			if wt, ok := ns[len(ns)-1].(parser.WhitespaceTrailer); ok && wt.Trailing() == parser.SpaceNone {
				found = true
			}
		}
		for i, n := range ns {
			if i+1 >= len(ns) {
				break
			}
			if _, ws := n.(parser.Whitespace); ws {
				if i > 0 {
					found = true // an interior whitespace node: rendered as a space, dropped by the formatter
				}
				continue
			}
			if _, trailer := n.(parser.WhitespaceTrailer); trailer {
				continue
			}
			if _, ws := ns[i+1].(parser.Whitespace); !ws {
				found = true // two nodes with nothing between them where the formatter will break the line
			}
		}
		list(ns)
	}
	list = func(ns []parser.Node) {
		for _, n := range ns {
			switch n := n.(type) {
			case parser.IfExpression:
				body(n.Then)
				for _, ei := range n.ElseIfs {
					body(ei.Then)
				}
				body(n.Else)
			case parser.ForExpression:
				body(n.Children)
			case parser.SwitchExpression:
				for _, c := range n.Cases {
					body(c.Children)
				}
			case parser.TemplElementExpression:
				body(n.Children)
			case parser.Element:
				list(n.Children)
			}
		}
	}
	for _, n := range tf.Nodes {
		if t, ok := n.(parser.HTMLTemplate); ok {
			list(t.Children)
		}
	}
	return found
}

// KnownLegacyCallAfterText: "text{! c }" on one line. The formatter rewrites the legacy call to
// "@c" on the same line, where it is read as part of the text: the call disappears.
const KnownLegacyCallAfterText = "c08-legacy-call-after-text-on-same-line"

func inKnownLegacyCallAfterText(src string) bool {
	tf, err := parser.ParseString(src)
	if err != nil {
		return false
	}
	found := false
	var list func(ns []parser.Node)
	list = func(ns []parser.Node) {
		for i, n := range ns {
			if c, ok := n.(parser.CompositeNode); ok {
				list(c.ChildNodes())
			}
			if t, ok := n.(parser.Text); ok && t.TrailingSpace != parser.SpaceVertical && i+1 < len(ns) {
				if _, ok := ns[i+1].(parser.CallTemplateExpression); ok {
					found = true
				}
			}
		}
	}
	for _, n := range tf.Nodes {
		if t, ok := n.(parser.HTMLTemplate); ok {
			list(t.Children)
		}
	}
	return found
}

// knownClass maps a failing source to a listed finding class.
func knownClass(src string, err error) string {
	if inKnownLegacyCallAfterText(src) {
		return KnownLegacyCallAfterText
	}
	if inKnownInlineBroken(src) {
		return KnownInlineBroken
	}
	if inKnownBodyWhitespace(src) {
		return KnownBodyWhitespace
	}
	return ""
}

func check(t ev.Failer, src, name string) {
	rec.Eval(1)
	changed, err := decide(src)
	if changed {
		rec.NonTrivial(src, func() any { return clip(src) })
	}
	if err != nil {
		if k := knownClass(src, err); k != "" && ev.IsOpenFinding("C08", k) {
			rec.Excluded(k)
			return
		}
		rec.Fail(t, Case{Source: ev.QStr(src)}, "%s%v\n--- original:\n%s", name, err, src)
	}
}

func clip(s string) string {
	if len(s) > 600 {
		return s[:600] + "..."
	}
	return s
}

// crlf is the same file saved with Windows line endings (every line break, also those inside
// comments, attribute values and string literals).
func crlf(src string) string {
	return strings.ReplaceAll(strings.ReplaceAll(src, "\r\n", "\n"), "\n", "\r\n")
}

func TestPropSeeds(t *testing.T) {
	for _, sd := range corpus.Seeds() {
		check(t, sd.Text, sd.Name+": ")
		check(t, crlf(sd.Text), sd.Name+" (CRLF): ")
	}
}

// TestPropOneLiners enumerates the one-line family completely (package oneline).
func TestPropOneLiners(t *testing.T) {
	shard, shards := ev.Shard()
	n := 0
	oneline.Each(shard, shards, func(name, src string) {
		n++
		check(t, src, name+": ")
	})
	rec.ClassN("one-line family (enumerated completely)", n)
}

// TestPropDeep: every layout nested 0..24 levels deep in each kind of block (package oneline).
func TestPropDeep(t *testing.T) {
	shard, shards := ev.Shard()
	n := 0
	oneline.EachDeep(shard, shards, 24, func(name, src string) {
		n++
		check(t, src, "nested "+name+": ")
	})
	rec.ClassN("layouts nested 0..24 levels deep (enumerated completely)", n)
}

// TestPropLayouts enumerates the layout family completely: expressions, parameter lists, statement
// heads and attribute lists with every placement of blanks and line breaks between their tokens.
func TestPropLayouts(t *testing.T) {
	shard, shards := ev.Shard()
	gaps := oneline.QuickGaps
	if ev.Thorough() {
		gaps = oneline.ThoroughGaps
	}
	n := 0
	oneline.EachLayout(shard, shards, gaps, func(name, src string) {
		n++
		check(t, src, name+": ")
	})
	rec.ClassN("layout family (enumerated completely)", n)
}

// TestPropFmtCmd: the same oracle with the formatting done by the `templ fmt` command's own code
// path.
func TestPropFmtCmd(t *testing.T) {
	g := tgen.GenFile(tgen.DefaultOptions)
	rapid.Check(t, func(t *rapid.T) {
		f := g.Draw(t, "file")
		src, _ := tgen.Print(f, "P")
		rec.Eval(1)
		rec.Class("formatted by the templ fmt command path")
		changed, err := decideWith(src, formatViaCmd)
		if changed {
			rec.NonTrivial("cmd:"+src, func() any { return clip(src) })
		}
		if err != nil {
			if k := knownClass(src, err); k != "" && ev.IsOpenFinding("C08", k) {
				rec.Excluded(k)
				return
			}
			rec.Fail(t, Case{Source: ev.QStr(src), ViaCmd: true}, "(formatted by the templ fmt command path) %v\n--- original:\n%s", err, src)
		}
	})
}

func TestPropGenerated(t *testing.T) {
	g := tgen.GenFile(tgen.DefaultOptions)
	rapid.Check(t, func(t *rapid.T) {
		f := g.Draw(t, "file")
		src, _ := tgen.Print(f, "P")
		if rapid.IntRange(0, 3).Draw(t, "crlf") == 0 {
			src = crlf(src)
			rec.Class("CRLF line endings")
		}
		check(t, src, "")
	})
}

// wsMutate rewrites 1..5 whitespace runs (or token boundaries) of an accepted source: the result,
// if still accepted, is another concrete spelling whose own meaning formatting must preserve.
func wsMutate(t *rapid.T, src string) string {
	// only spellings of templates are varied, not of the package clause / imports in front of them
	start := strings.Index(src, "templ ")
	if start < 0 {
		return src
	}
	if rapid.IntRange(0, 5).Draw(t, "topComment") == 0 {
		// a top-level // comment line gets indented (gofmt will take the indentation away again)
		lines := strings.Split(src, "\n")
		var cands, templs []int
		for i, l := range lines {
			if strings.HasPrefix(l, "//") {
				cands = append(cands, i)
			}
			if strings.HasPrefix(l, "templ ") && i > 0 {
				templs = append(templs, i)
			}
		}
		if len(templs) > 0 && rapid.Bool().Draw(t, "insertComment") {
			// ... or a new, indented comment line is put directly in front of a template
			i := templs[rapid.IntRange(0, len(templs)-1).Draw(t, "beforeTempl")]
			ind := rapid.SampledFrom([]string{"\t", "  ", ""}).Draw(t, "newCommentIndent")
			lines = append(lines[:i:i], append([]string{ind + "// about the template below"}, lines[i:]...)...)
			return strings.Join(lines, "\n")
		}
		if len(cands) > 0 {
			i := cands[rapid.IntRange(0, len(cands)-1).Draw(t, "topCommentLine")]
			lines[i] = rapid.SampledFrom([]string{"\t", "  ", "\t\t"}).Draw(t, "topCommentIndent") + lines[i]
			return strings.Join(lines, "\n")
		}
	}
	head, src := src[:start], src[start:]
	defer func() {}()
	out := wsMutateBody(t, src)
	return head + out
}

func wsMutateBody(t *rapid.T, src string) string {
	for i, n := 0, rapid.IntRange(1, 5).Draw(t, "nmut"); i < n; i++ {
		// find whitespace runs
		type run struct{ a, b int }
		var runs []run
		for j := 0; j < len(src); {
			if src[j] == ' ' || src[j] == '\t' || src[j] == '\n' {
				k := j
				for k < len(src) && (src[k] == ' ' || src[k] == '\t' || src[k] == '\n') {
					k++
				}
				// "} else" must keep its line start: the else parser does not accept padding in front of
				// the brace, and a file where it silently stops being an else is not a spelling of the same template
				if !strings.HasPrefix(src[k:], "} else") && !strings.HasPrefix(src[k:], "}else") {
					runs = append(runs, run{j, k})
				}
				j = k
			} else {
				j++
			}
		}
		repl := rapid.SampledFrom([]string{"", " ", "\n", "\n\n", "\n\t\t", "  ", "\t"}).Draw(t, "repl")
		if len(runs) > 2 && rapid.IntRange(0, 5).Draw(t, "join") == 0 {
			// several consecutive runs collapse at once: nested elements, calls and expressions end
			// up on one line
			first := rapid.IntRange(0, len(runs)-2).Draw(t, "joinFrom")
			last := min(len(runs)-1, first+rapid.IntRange(1, 5).Draw(t, "joinLen"))
			sep := rapid.SampledFrom([]string{"", "", " "}).Draw(t, "joinSep")
			for k := last; k >= first; k-- {
				src = src[:runs[k].a] + sep + src[runs[k].b:]
			}
			continue
		}
		if len(runs) > 0 && rapid.IntRange(0, 3).Draw(t, "where") > 0 {
			r := runs[rapid.IntRange(0, len(runs)-1).Draw(t, "run")]
			src = src[:r.a] + repl + src[r.b:]
		} else {
			// insert whitespace at a boundary next to markup punctuation
			var cands []int
			for j := 1; j < len(src); j++ {
				if strings.HasPrefix(src[j:], "} else") || strings.HasPrefix(src[j:], "}else") {
					continue
				}
				if strings.ContainsRune("<>{}", rune(src[j])) || strings.ContainsRune("<>{}", rune(src[j-1])) {
					cands = append(cands, j)
				}
			}
			if len(cands) > 0 {
				pos := cands[rapid.IntRange(0, len(cands)-1).Draw(t, "pos")]
				src = src[:pos] + repl + src[pos:]
			}
		}
	}
	return src
}

func TestPropWhitespaceMutations(t *testing.T) {
	g := tgen.GenFile(tgen.DefaultOptions)
	seeds := corpus.Seeds()
	rapid.Check(t, func(t *rapid.T) {
		var src string
		if rapid.Bool().Draw(t, "fromSeed") {
			src = seeds[rapid.IntRange(0, len(seeds)-1).Draw(t, "seed")].Text
		} else {
			src, _ = tgen.Print(g.Draw(t, "file"), "P")
		}
		src = wsMutate(t, src)
		if _, _, err := tc.Generate(src, "f.templ"); err != nil {
			rec.Class("mutant-not-accepted")
			return
		}
		rec.Class("mutant-accepted")
		check(t, src, "")
	})
}

func TestReplay(t *testing.T) {
	for _, r := range ev.RunReplays() {
		t.Logf("%+v", r)
	}
}

var _ = strings.Contains
