package c04

import (
	"bytes"
	"context"
	"encoding/json"
	"fmt"
	"os"
	"strings"
	"testing"

	"github.com/a-h/templ"
	"pgregory.net/rapid"

	"verif/ev"
	"verif/fx"
	"verif/oracle/htmltok"
	"verif/oracle/urlscheme"
	"verif/sgen"
	"verif/tc"
)

func TestMain(m *testing.M) {
	code := m.Run()
	ev.FlushAll()
	os.Exit(code)
}

var allowed = []string{"http", "https", "mailto", "tel", "ftp", "ftps"}

type Case struct {
	S ev.QStr `json:"s"`
}

var recFn = ev.New("C04", "c04.sanitiser",
	"templ.URL(s) must return s or the failure URL, and may return s only if an independent WHATWG scheme extractor finds no scheme or an allow-listed one; the rendered href/action must be one attribute whose decoded value is that result. "+
		"Exhaustive: all sequences of <=L tokens over a 30-token adversarial alphabet (L=3 quick, 5 thorough) and all strings of <=7 (quick 5) characters over {a,A,:,/,\\,TAB,space,?}; random: long strings and mutated XSS vectors; stretched: every vector with a run of 1..65536 filler characters (TAB, LF, CR, blank, a, NUL, é) inserted at each of its first 13 positions. "+
		"Non-trivial = s contains ':' or a control/whitespace character; enumerated cases are distinct by construction, random ones by s")

func decide(c Case) error {
	s := string(c.S)
	out := string(templ.URL(s))
	if out != s && out != string(templ.FailedSanitizationURL) {
		return fmt.Errorf("URL(%q) = %q: neither the input nor the failure URL", s, out)
	}
	if out == s && !urlscheme.Accept(s, allowed...) {
		sc, _ := urlscheme.Scheme(s)
		return fmt.Errorf("URL(%q) returned unchanged, but a browser resolves it with scheme %q", s, sc)
	}
	return nil
}

// decideRendered: the value is attribute-escaped on output - one href/action attribute whose
// decoded value is URL(s), which a browser again resolves as relative or allow-listed.
func decideRendered(c Case) error {
	s := string(c.S)
	for _, f := range []struct {
		name, attr string
		mk         func(string) templ.Component
	}{
		{"a", "href", func(s string) templ.Component { return fx.HrefURL(s) }},
		{"form", "action", func(s string) templ.Component { return fx.FormAction(s) }},
	} {
		var buf bytes.Buffer
		if err := f.mk(s).Render(context.Background(), &buf); err != nil {
			return fmt.Errorf("render: %v", err)
		}
		toks, err := htmltok.Tokens(buf.Bytes())
		if err != nil || len(toks) == 0 || toks[0].Type != "start" || toks[0].Name != f.name {
			return fmt.Errorf("%s: unexpected output %q", f.name, buf.String())
		}
		var vals []string
		for _, a := range toks[0].Attrs {
			if a.Name == f.attr {
				vals = append(vals, a.Val)
			}
		}
		want := htmltok.NormNewlines(string(templ.URL(s)))
		if len(vals) != 1 || vals[0] != want {
			return fmt.Errorf("%s %s: tokenizer sees %q, want one value %q; output %q", f.name, f.attr, vals, want, buf.String())
		}
		if vals[0] != string(templ.FailedSanitizationURL) && !urlscheme.Accept(vals[0], allowed...) {
			return fmt.Errorf("%s %s=%q as decoded by the tokenizer has a forbidden scheme; output %q", f.name, f.attr, vals[0], buf.String())
		}
	}
	return nil
}

func init() {
	ev.RegisterReplay("c04.sanitiser", func(raw json.RawMessage) error {
		var c Case
		if err := json.Unmarshal(raw, &c); err != nil {
			return err
		}
		if err := decide(c); err != nil {
			return err
		}
		return decideRendered(c)
	})
	ev.RegisterReplay("c04.typing", func(raw json.RawMessage) error {
		var c TypingCase
		if err := json.Unmarshal(raw, &c); err != nil {
			return err
		}
		return decideTyping(c)
	})
}

func nt(s string) bool {
	for i := 0; i < len(s); i++ {
		if s[i] == ':' || s[i] <= 0x20 || s[i] == 0x7f {
			return true
		}
	}
	return false
}

var tokenAlphabet = []string{
	"javascript", "JavaScript", "data", "vbscript", "http", "HTTPS", "mailto", "tel", "ftp", "ftps", "x", ":", "/", "\\", "?", "#",
	"%", "&", ";", "\t", "\n", "\r", " ", "\x00", "é", "ſ", "K", "&colon;", "&#58;", "&Tab;",
}

func enumerate(t *testing.T, alphabet []string, maxLen int, label string) {
	shard, shards := ev.Shard()
	var n, ntn int64
	var rec func(prefix string, depth int)
	var sb strings.Builder
	_ = sb
	rec = func(prefix string, depth int) {
		c := Case{S: ev.QStr(prefix)}
		n++
		if nt(prefix) {
			ntn++
			if ntn%200000 == 1 {
				recFn.Sample(c)
			}
		}
		if err := decide(c); err != nil {
			recFn.Fail(t, c, "%v", err)
		}
		// the rendered clause on a stride of the enumeration (it is 50x slower)
		if n%97 == 0 {
			if err := decideRendered(c); err != nil {
				recFn.Fail(t, c, "%v", err)
			}
		}
		if depth == maxLen {
			return
		}
		for _, tok := range alphabet {
			rec(prefix+tok, depth+1)
		}
	}
	// partition by first token
	if shard == 0 {
		rec("", maxLen) // the empty string only
	}
	for i, tok := range alphabet {
		if i%shards == shard {
			rec(tok, 1)
		}
	}
	recFn.Eval(int(n))
	recFn.Enumerated(ntn)
	recFn.ClassN("exhaustive-"+label, int(n))
	recFn.Set("exhaustive", true)
	recFn.Set("exhaustive_"+label, fmt.Sprintf("all sequences of <=%d symbols over %q", maxLen, alphabet))
}

func TestPropExhaustiveTokens(t *testing.T) {
	enumerate(t, tokenAlphabet, ev.Pick(3, 5), "tokens")
}

func TestPropExhaustiveChars(t *testing.T) {
	enumerate(t, []string{"a", "A", ":", "/", "\\", "\t", " ", "?"}, ev.Pick(5, 7), "chars")
}

var xssVectors = []string{
	"javascript:alert(1)", "JaVaScRiPt:alert(1)", " javascript:alert(1)", "\x01javascript:alert(1)", "java\tscript:alert(1)", "java\nscript:alert(1)",
	"java\rscript:alert(1)", "javascript\t:alert(1)", "javascript&colon;alert(1)", "javascript&#58;alert(1)", "&#106;avascript:alert(1)",
	"data:text/html,<script>alert(1)</script>", "vbscript:msgbox(1)", "//evil.example/x", "/\\evil.example", "\\\\evil.example", "http://ok.example/?q=javascript:x",
	"https://a/b:c", "mailto:a@b", "tel:+1", "ftp://h/", "ftps://h/", "a/b:c", "?a:b", "#a:b", "a:b", "livescript:x", "mocha:x", "feed:javascript:x", "view-source:x",
	"jar:x", "blob:x", "file:///etc/passwd", "ws://x", "about:blank", "HTTP://x", "hTTps://x", "httpſ://x", "Khttp:x", ":javascript:x", "javascript:", "x:javascript:",
	"\tjavascript:x", "\njavascript:x", "\x00javascript:x", "javascript\x00:x", "java\x00script:x", "%6aavascript:x", "javascript%3ax",
}

// TestPropStretched: every vector with a run of 1 .. 65536 filler characters (what a browser strips
// from a URL, what it does not, and ordinary path characters) inserted at each of its first
// positions: lengths around the powers of two a bounded scan or a fixed buffer would stop at.
func TestPropStretched(t *testing.T) {
	shard, shards := ev.Shard()
	lengths := []int{1, 2, 7, 8, 9, 15, 16, 17, 31, 32, 33, 53, 54, 60, 63, 64, 65, 100, 127, 128, 129, 255, 256, 257, 511, 512, 1023, 1024, 1025, 4095, 4096, 4097, 65536}
	fillers := []string{"\t", "\n", "\r", " ", "a", "\x00", "é"}
	n := 0
	for vi, v := range xssVectors {
		if vi%shards != shard {
			continue
		}
		for pos := 0; pos <= len(v) && pos <= 12; pos++ {
			for _, f := range fillers {
				for _, l := range lengths {
					if l > 4097 && pos%4 != 0 {
						continue
					}
					c := Case{S: ev.QStr(v[:pos] + strings.Repeat(f, l) + v[pos:])}
					n++
					if err := decide(c); err != nil {
						recFn.Fail(t, c, "%v", err)
					}
					if n%53 == 0 {
						if err := decideRendered(c); err != nil {
							recFn.Fail(t, c, "%v", err)
						}
					}
				}
			}
		}
	}
	recFn.Eval(n)
	recFn.Enumerated(int64(n))
	recFn.ClassN("stretched vectors (enumerated completely)", n)
}

var genMutated = rapid.Custom(func(t *rapid.T) string {
	s := rapid.SampledFrom(xssVectors).Draw(t, "vector")
	n := rapid.IntRange(0, 4).Draw(t, "mutations")
	for i := 0; i < n; i++ {
		pos := rapid.IntRange(0, len(s)).Draw(t, "pos")
		switch rapid.IntRange(0, 4).Draw(t, "kind") {
		case 0: // insert control / whitespace
			ins := rapid.SampledFrom([]string{"\t", "\n", "\r", " ", "\x00", "\x01", "\x1f", "\x7f", "\u00a0", "\u2028", "\ufeff", "\x0b", "\x0c"}).Draw(t, "ins")
			s = s[:pos] + ins + s[pos:]
		case 1: // flip case
			if pos < len(s) {
				b := []byte(s)
				switch {
				case b[pos] >= 'a' && b[pos] <= 'z':
					b[pos] -= 32
				case b[pos] >= 'A' && b[pos] <= 'Z':
					b[pos] += 32
				}
				s = string(b)
			}
		case 2: // entity substitution of the character at pos
			if pos < len(s) {
				s = s[:pos] + fmt.Sprintf(rapid.SampledFrom([]string{"&#%d;", "&#x%x;", "&#%d", "%%%02x"}).Draw(t, "ent"), s[pos]) + s[pos+1:]
			}
		case 3: // insert a token
			s = s[:pos] + rapid.SampledFrom(tokenAlphabet).Draw(t, "tok") + s[pos:]
		case 4: // delete
			if pos < len(s) {
				s = s[:pos] + s[pos+1:]
			}
		}
	}
	return s
})

func TestPropRandom(t *testing.T) {
	g := rapid.OneOf(genMutated, genMutated, sgen.FromTokens(tokenAlphabet, 12), sgen.HTMLString(), rapid.String())
	rapid.Check(t, func(t *rapid.T) {
		c := Case{S: ev.QStr(g.Draw(t, "s"))}
		recFn.Eval(1)
		recFn.Class("random")
		if nt(string(c.S)) {
			recFn.NonTrivial(string(c.S), func() any { return c })
		}
		if err := decide(c); err != nil {
			recFn.Fail(t, c, "%v", err)
		}
		if err := decideRendered(c); err != nil {
			recFn.Fail(t, c, "%v", err)
		}
	})
}

// ---------- typing clause ----------

// TypingCase: a template that fills href on <a> / action on <form> from an expression of the
// given Go type, in one of several attribute positions.
type TypingCase struct {
	Element  string `json:"element"`   // a | form
	Position string `json:"position"`  // plain, cond-then, cond-else, multiline, after-spread, nested
	ExprType string `json:"expr_type"` // string | safeurl | url-call | string-const | stringer
	// Spelling of the attribute name: HTML attribute names are ASCII case-insensitive, so HREF,
	// Href and hReF all name the href attribute to a browser. "" = lower case.
	Spelling string `json:"spelling,omitempty"`
	// ElSpelling: the same for the element name; the parser wants a lower-case first letter, so
	// the only other spelling of "form" tried is fORM ("a" has none).
	ElSpelling string `json:"el_spelling,omitempty"`
}

// spell applies the case pattern: lower, upper, title, or alternating.
func spell(name, how string) string {
	switch how {
	case "upper":
		return strings.ToUpper(name)
	case "title":
		return strings.ToUpper(name[:1]) + name[1:]
	case "alternating":
		b := []byte(name)
		for i := range b {
			if i%2 == 1 {
				b[i] = strings.ToUpper(string(b[i]))[0]
			}
		}
		return string(b)
	}
	return name
}

var recTy = ev.New("C04", "c04.typing",
	"templates with href={e} on <a> / action={e} on <form> in generated attribute positions (plain, inside conditional-attribute then/else, multi-line, next to a spread, nested elements): "+
		"the generated Go must be rejected by go/types when e is a plain string (variable, call result, named string type) and accepted when e is templ.SafeURL / templ.URL(s). "+
		"The attribute name is written in four case patterns (href, HREF, Href, hReF: one attribute to a browser). Non-trivial = e is not of type SafeURL; distinct by (element, position, expression kind, spelling)")

func (c TypingCase) source() string {
	attr := "href"
	if c.Element == "form" {
		attr = "action"
	}
	attr = spell(attr, c.Spelling)
	el := c.Element
	if c.ElSpelling == "tail-upper" {
		el = el[:1] + strings.ToUpper(el[1:])
	}
	if c.ElSpelling == "first-upper" || c.ElSpelling == "all-upper" {
		// <A href=...> / <FORM action=...>: a tag to every browser. templ's element names start
		// with a lower-case letter, so it should refuse such a file; written without an end tag
		// (browsers imply it) and inside another element.
		name := strings.ToUpper(el[:1]) + el[1:]
		if c.ElSpelling == "all-upper" {
			name = strings.ToUpper(el)
		}
		a := spell(map[bool]string{true: "action", false: "href"}[c.Element == "form"], c.Spelling) + "={ " + exprOf(c.ExprType) + " }"
		return "package p\n\ntype myStr string\n\nfunc ident(s string) string { return s }\n\ntempl T(s string, u templ.SafeURL, b bool, attrs templ.Attributes) {\n\t<ul><li><" + name + " " + a + ">click here</li></ul>\n}\n"
	}
	expr := exprOf(c.ExprType)
	a := attr + "={ " + expr + " }"
	var body string
	switch c.Position {
	case "plain":
		body = fmt.Sprintf("<%s %s>x</%s>", el, a, el)
	case "with-others":
		body = fmt.Sprintf("<%s id=\"i\" class={ \"c\" } %s data-x={ s }>x</%s>", el, a, el)
	case "cond-then":
		body = fmt.Sprintf("<%s\n\t\tif b {\n\t\t\t%s\n\t\t}\n\t>x</%s>", el, a, el)
	case "cond-else":
		body = fmt.Sprintf("<%s\n\t\tif b {\n\t\t\tid=\"i\"\n\t\t} else {\n\t\t\t%s\n\t\t}\n\t>x</%s>", el, a, el)
	case "multiline":
		body = fmt.Sprintf("<%s\n\t\tid=\"i\"\n\t\t%s\n\t>x</%s>", el, a, el)
	case "after-spread":
		body = fmt.Sprintf("<%s { attrs... } %s>x</%s>", el, a, el)
	case "nested":
		body = fmt.Sprintf("<div><p>\n\t\tif b {\n\t\t\t<%s %s>x</%s>\n\t\t}\n\t</p></div>", el, a, el)
	case "in-loop":
		body = fmt.Sprintf("for _, s2 := range []string{s} {\n\t\t<%s %s title={ s2 }>x</%s>\n\t}", el, a, el)
	case "after-same-name-elsewhere":
		// the same attribute name on elements where it is not a URL attribute, earlier in the file
		body = fmt.Sprintf("<link %s={ s }/>\n\t<div %s={ s } %s={ s }>d</div>\n\t<%s %s>x</%s>", attr, "href", "action", el, a, el)
	case "second-template":
		body = fmt.Sprintf("<span %s={ s }>first</span>\n}\n\ntempl T2(s string, u templ.SafeURL) {\n\t<%s %s>x</%s>", attr, el, a, el)
	case "before-same-name-elsewhere":
		body = fmt.Sprintf("<%s %s>x</%s>\n\t<span %s={ s }>later</span>", el, a, el, attr)
	}
	return "package p\n\ntype myStr string\n\nfunc ident(s string) string { return s }\n\ntempl T(s string, u templ.SafeURL, b bool, attrs templ.Attributes) {\n\t" + body + "\n}\n"
}

func exprOf(exprType string) string {
	switch exprType {
	case "string":
		return "s"
	case "string-call":
		return "ident(s)"
	case "named-string":
		return "myStr(s)"
	case "string-concat":
		return `"/x/" + s`
	case "safeurl":
		return "templ.SafeURL(s)"
	case "url-call":
		return "templ.URL(s)"
	}
	return "u"
}

func (c TypingCase) safe() bool {
	return c.ExprType == "safeurl" || c.ExprType == "url-call" || c.ExprType == "safeurl-var"
}

func decideTyping(c TypingCase) error {
	src := c.source()
	g, stage, err := tc.Generate(src, "t.templ")
	if err != nil {
		if c.ElSpelling == "first-upper" || c.ElSpelling == "all-upper" {
			return nil // templ refuses the file: nothing reaches a browser
		}
		return fmt.Errorf("harness: fixture does not generate (%s): %v\n%s", stage, err, src)
	}
	if c.ElSpelling == "first-upper" || c.ElSpelling == "all-upper" {
		// accepted: then the tag the browser will see must be under the same typing rule
		if !strings.Contains(g.Go, "templ.SafeURL") {
			return fmt.Errorf("a file with <%s ...> written in upper case is accepted, and its %s is filled without the safe-URL type:\n%s", strings.ToUpper(c.Element), map[bool]string{true: "action", false: "href"}[c.Element == "form"], src)
		}
	}
	errs := tc.TypeCheck(map[string]string{"t_templ.go": g.Go})
	if tc.ImportProblem(errs) {
		panic(fmt.Sprintf("harness: type checker cannot load dependencies: %v", errs))
	}
	if c.safe() {
		if len(errs) > 0 {
			return fmt.Errorf("SafeURL expression rejected: %v\n%s", errs[0], src)
		}
		return nil
	}
	if len(errs) == 0 {
		return fmt.Errorf("a plain string expression for %s compiles:\n%s", c.Element, src)
	}
	for _, e := range errs {
		if strings.Contains(e.Error(), "SafeURL") {
			return nil
		}
	}
	return fmt.Errorf("rejected, but not because of the SafeURL type: %v\n%s", errs, src)
}

func TestPropTyping(t *testing.T) {
	n := 0
	for _, el := range []string{"a", "form"} {
		for _, pos := range []string{"plain", "with-others", "cond-then", "cond-else", "multiline", "after-spread", "nested", "in-loop", "after-same-name-elsewhere", "second-template", "before-same-name-elsewhere"} {
			for _, et := range []string{"string", "string-call", "named-string", "string-concat", "safeurl", "url-call", "safeurl-var"} {
				for _, sp := range []string{"", "upper", "title", "alternating", "el-tail-upper", "el-first-upper", "el-all-upper"} {
					c := TypingCase{Element: el, Position: pos, ExprType: et, Spelling: sp}
					if sp == "el-tail-upper" {
						if el == "a" {
							continue
						}
						c.Spelling, c.ElSpelling = "", "tail-upper"
					}
					if sp == "el-first-upper" || sp == "el-all-upper" {
						if pos != "plain" {
							continue // one position: the element name decides here
						}
						c.Spelling, c.ElSpelling = "", strings.TrimPrefix(sp, "el-")
					}
					n++
					recTy.Eval(1)
					recTy.Class(et)
					if !c.safe() {
						recTy.NonTrivial(fmt.Sprint(c), func() any { return map[string]any{"case": c, "source": c.source()} })
					}
					if err := decideTyping(c); err != nil {
						recTy.Fail(t, c, "%v", err)
					}
				}
			}
		}
	}
	recTy.Set("exhaustive", true)
}

func TestReplay(t *testing.T) {
	for _, r := range ev.RunReplays() {
		t.Logf("%+v", r)
	}
}
