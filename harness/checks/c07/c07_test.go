package c07

import (
	"encoding/json"
	"fmt"
	"go/ast"
	"go/parser"
	"go/token"
	"hash/fnv"
	"os"
	"reflect"
	"strings"
	"testing"
	"time"
	"unicode/utf8"

	"github.com/a-h/templ/generator"
	templparser "github.com/a-h/templ/parser/v2"
	"pgregory.net/rapid"

	"verif/corpus"
	"verif/ev"
	"verif/oneline"
	"verif/tc"
	"verif/tgen"
)

func TestMain(m *testing.M) {
	code := m.Run()
	ev.FlushAll()
	os.Exit(code)
}

type Case struct {
	Source ev.QStr `json:"source"`
}

var rec = ev.New("C07", "c07.sourcemap",
	"accepted templ files (tgen programs biased to expressions in every slot - package clause, signature, if / else-if, for, switch, case, string, attribute, boolean attribute, conditional attribute, call, raw Go, css value, top-level Go before/after templates - with multi-line spellings, multi-byte characters inside and before expressions, several per line; plus every repository .templ file): "+
		"for every Go expression (printer's record for tgen, parser's for seeds) and every rune start in it plus the position just past each of its lines: TargetPositionFromSource exists, the generated text holds the same byte there, target line/col agree with the target index, consecutive source positions map to consecutive target positions, SourcePositionFromTarget returns the original line, column and index; top-level template/css/script/Go symbol ranges enclose declarations of the same name. "+
		"Non-trivial = the expression spans lines, holds or follows a multi-byte character on its line, or is in a slot other than a plain string expression; distinct by (source, expression offset)")

func lineCol(src string, idx int) (line, col int) {
	line = strings.Count(src[:idx], "\n")
	col = idx - (strings.LastIndex(src[:idx], "\n") + 1)
	return
}

func indexOf(src string, line, col int) int {
	idx := 0
	for l := 0; l < line; l++ {
		nl := strings.IndexByte(src[idx:], '\n')
		if nl < 0 {
			return -1
		}
		idx += nl + 1
	}
	if idx+col > len(src) {
		return -1
	}
	return idx + col
}

// genOptions chooses, as a pure function of the source text, which of the header options of
// `templ generate` (-include-version, -include-timestamp, the language server's skipped
// "Code generated" comment) the file is generated with: whatever is written in front of the
// package clause must move every recorded target position with it.
func genOptions(src string) (string, []generator.GenerateOpt) {
	h := fnv.New32a()
	h.Write([]byte(src))
	stamp := time.Date(2024, 2, 29, 23, 59, 58, 0, time.FixedZone("", 5*3600+1800))
	switch h.Sum32() % 6 {
	case 0:
		return "version", []generator.GenerateOpt{generator.WithVersion("v0.3.865")}
	case 1:
		return "timestamp", []generator.GenerateOpt{generator.WithTimestamp(stamp)}
	case 2:
		return "version+timestamp", []generator.GenerateOpt{generator.WithVersion("v0.3.865"), generator.WithTimestamp(stamp)}
	case 3:
		return "skip-generated-comment+timestamp", []generator.GenerateOpt{generator.WithSkipCodeGeneratedComment(), generator.WithTimestamp(stamp)}
	}
	return "default", nil
}

type exprAt struct {
	slot  string
	start int
	text  string
}

// decide checks the source map of one accepted file. exprs nil: take the expressions from the parser.
func decide(src string, exprs []exprAt) (n int, err error) {
	variant, opts := genOptions(src)
	g, _, gerr := tc.GenerateOpts(src, "f.templ", opts...)
	if gerr != nil {
		return 0, nil // not accepted
	}
	rec.Class("options:" + variant)
	gen := g.RawGo
	sm := g.Output.SourceMap
	if exprs == nil {
		var found []exprAt
		collect(reflect.ValueOf(g.File), &found, 0)
		exprs = found
	}
	for _, e := range exprs {
		if strings.TrimSpace(e.text) == "" {
			continue
		}
		n++
		var prevTgt int64 = -1
		prevSrc := -1
		check := func(off int, atRune bool) error {
			l, c := lineCol(src, off)
			tgt, ok := sm.TargetPositionFromSource(uint32(l), uint32(c))
			if !ok {
				return fmt.Errorf("%s expression %q: source position %d:%d (byte %d) is not mapped", e.slot, clip(e.text), l, c, off)
			}
			if tgt.Index < 0 || int(tgt.Index) > len(gen) {
				return fmt.Errorf("%s expression %q: %d:%d maps to target index %d outside the generated file", e.slot, clip(e.text), l, c, tgt.Index)
			}
			if ti := indexOf(gen, int(tgt.Line), int(tgt.Col)); ti != int(tgt.Index) {
				return fmt.Errorf("%s expression %q: target position line %d col %d does not agree with target index %d (that line/col is byte %d)", e.slot, clip(e.text), tgt.Line, tgt.Col, tgt.Index, ti)
			}
			if atRune {
				r, w := utf8.DecodeRuneInString(src[off:])
				if !strings.HasPrefix(gen[tgt.Index:], src[off:off+w]) {
					return fmt.Errorf("%s expression %q: source %d:%d holds %q but the generated code at the mapped position %d:%d holds %q", e.slot, clip(e.text), l, c, r, tgt.Line, tgt.Col, clip(gen[tgt.Index:min(len(gen), int(tgt.Index)+12)]))
				}
			}
			if prevSrc >= 0 && int64(off-prevSrc) != tgt.Index-prevTgt {
				return fmt.Errorf("%s expression %q: source bytes %d and %d are %d apart but map to target bytes %d and %d", e.slot, clip(e.text), prevSrc, off, off-prevSrc, prevTgt, tgt.Index)
			}
			prevSrc, prevTgt = off, tgt.Index
			back, ok := sm.SourcePositionFromTarget(tgt.Line, tgt.Col)
			if !ok || int(back.Line) != l || int(back.Col) != c || int(back.Index) != off {
				return fmt.Errorf("%s expression %q: %d:%d (byte %d) maps to target %d:%d, which maps back to %d:%d (byte %d, found=%v)", e.slot, clip(e.text), l, c, off, tgt.Line, tgt.Col, back.Line, back.Col, back.Index, ok)
			}
			return nil
		}
		off := e.start
		end := e.start + len(e.text)
		for off < end {
			_, w := utf8.DecodeRuneInString(src[off:])
			if src[off] == '\n' {
				// the position just past the end of the line, then continue on the next line
				if err := check(off, false); err != nil {
					return n, err
				}
				off++
				prevSrc = -1 // a new line: target continuity is per line
				continue
			}
			if err := check(off, true); err != nil {
				return n, err
			}
			off += w
		}
		if err := check(end, false); err != nil {
			return n, fmt.Errorf("(position just past the end) %v", err)
		}
	}
	// symbol ranges
	if err := checkSymbols(src, g); err != nil {
		return n, err
	}
	return n, nil
}

var exprType = reflect.TypeOf(templparser.Expression{})

func collect(v reflect.Value, out *[]exprAt, depth int) {
	if depth > 200 {
		return
	}
	switch v.Kind() {
	case reflect.Interface, reflect.Ptr:
		if !v.IsNil() {
			collect(v.Elem(), out, depth+1)
		}
	case reflect.Slice, reflect.Array:
		for i := 0; i < v.Len(); i++ {
			collect(v.Index(i), out, depth+1)
		}
	case reflect.Struct:
		if v.Type() == exprType {
			e := v.Interface().(templparser.Expression)
			if e.Value != "" {
				*out = append(*out, exprAt{slot: "parsed", start: int(e.Range.From.Index), text: e.Value})
			}
			return
		}
		for i := 0; i < v.NumField(); i++ {
			if v.Type().Field(i).IsExported() {
				collect(v.Field(i), out, depth+1)
			}
		}
	}
}

// checkSymbols: the range recorded for each top-level template / css / script / Go block encloses,
// in the generated file, declarations with the corresponding names.
func checkSymbols(src string, g tc.Generated) error {
	gen := g.RawGo
	sm := g.Output.SourceMap
	for _, n := range g.File.Nodes {
		var r templparser.Range
		var want string
		switch n := n.(type) {
		case templparser.HTMLTemplate:
			r, want = n.Range, funcName(n.Expression.Value)
		case templparser.CSSTemplate:
			r, want = n.Range, n.Name
		case templparser.ScriptTemplate:
			r, want = n.Range, n.Name.Value
		default:
			continue
		}
		tgt, ok := sm.SymbolTargetRangeFromSource(r.From.Line, r.From.Col)
		if !ok {
			return fmt.Errorf("top-level declaration %s at %d:%d has no symbol range", want, r.From.Line, r.From.Col)
		}
		if tgt.From.Index < 0 || tgt.To.Index > int64(len(gen)) || tgt.From.Index > tgt.To.Index {
			return fmt.Errorf("symbol range of %s is %d..%d in a generated file of %d bytes", want, tgt.From.Index, tgt.To.Index, len(gen))
		}
		text := gen[tgt.From.Index:tgt.To.Index]
		fset := token.NewFileSet()
		f, err := parser.ParseFile(fset, "x.go", "package p\n"+text, 0)
		if err != nil {
			return fmt.Errorf("symbol range of %s does not enclose whole declarations: %v: %q", want, err, clip(text))
		}
		found := false
		for _, d := range f.Decls {
			if fd, ok := d.(*ast.FuncDecl); ok && fd.Name.Name == want {
				found = true
			}
		}
		if !found {
			return fmt.Errorf("symbol range of %s encloses %q, which does not declare it", want, clip(text))
		}
	}
	return nil
}

func funcName(sig string) string {
	sig = strings.TrimSpace(sig)
	if strings.HasPrefix(sig, "(") { // method receiver
		if i := strings.Index(sig, ")"); i >= 0 {
			sig = strings.TrimSpace(sig[i+1:])
		}
	}
	if i := strings.IndexAny(sig, "(["); i >= 0 {
		return strings.TrimSpace(sig[:i])
	}
	return sig
}

func clip(s string) string {
	if len(s) > 60 {
		return s[:60] + "..."
	}
	return s
}

func init() {
	ev.RegisterReplay("c07.sourcemap", func(raw json.RawMessage) error {
		var c Case
		if err := json.Unmarshal(raw, &c); err != nil {
			return err
		}
		_, err := decide(string(c.Source), nil)
		return err
	})
}

func noteNT(src string, exprs []exprAt) {
	for _, e := range exprs {
		multi := strings.Contains(e.text, "\n")
		mb := false
		for _, r := range e.text {
			if r >= 0x80 {
				mb = true
			}
		}
		ls := strings.LastIndex(src[:e.start], "\n") + 1
		for _, r := range src[ls:e.start] {
			if r >= 0x80 {
				mb = true
			}
		}
		if multi || mb || e.slot != "string" {
			rec.NonTrivial(fmt.Sprintf("%s|%d", src, e.start), func() any {
				return map[string]any{"slot": e.slot, "expression": clip(e.text), "multi_line": multi, "multi_byte": mb}
			})
		}
		rec.Class(e.slot)
	}
}

// crlf is the same file saved with Windows line endings.
func crlf(src string) string {
	return strings.ReplaceAll(strings.ReplaceAll(src, "\r\n", "\n"), "\n", "\r\n")
}

func TestPropSeeds(t *testing.T) {
	for _, sd := range corpus.Seeds() {
		for vi, text := range []string{sd.Text, crlf(sd.Text)} {
			n, err := decide(text, nil)
			rec.Eval(n)
			if vi == 1 {
				rec.ClassN("expressions of CRLF files", n)
			}
			if err != nil {
				if k := knownClass(text, err); k != "" && ev.IsOpenFinding("C07", k) {
					rec.Excluded(k)
					continue
				}
				rec.Fail(t, Case{Source: ev.QStr(text)}, "%s: %v", sd.Name, err)
			}
		}
	}
}

// TestPropLayouts enumerates the layout family (package oneline): every Go expression slot with
// every placement of blanks and line breaks between the expression's tokens.
func TestPropLayouts(t *testing.T) {
	shard, shards := ev.Shard()
	gaps := oneline.QuickGaps
	if ev.Thorough() {
		gaps = oneline.ThoroughGaps
	}
	total := 0
	oneline.EachLayout(shard, shards, gaps, func(name, src string) {
		n, err := decide(src, nil)
		rec.Eval(n)
		total += n
		if n > 0 {
			rec.NonTrivial(src, func() any { return map[string]any{"layout": name, "source": clip(src)} })
		}
		if err != nil {
			rec.Fail(t, Case{Source: ev.QStr(src)}, "layout %s: %v", name, err)
		}
	})
	rec.ClassN("expressions of the layout family (enumerated completely)", total)
}

// TestPropDeep: every expression slot nested 0..24 levels deep in each kind of block.
func TestPropDeep(t *testing.T) {
	shard, shards := ev.Shard()
	total := 0
	oneline.EachDeep(shard, shards, 24, func(name, src string) {
		n, err := decide(src, nil)
		rec.Eval(n)
		total += n
		if n > 0 {
			rec.NonTrivial(src, func() any { return map[string]any{"layout": name, "source": clip(src)} })
		}
		if err != nil {
			rec.Fail(t, Case{Source: ev.QStr(src)}, "nested %s: %v", name, err)
		}
	})
	rec.ClassN("expressions nested 0..24 levels deep (enumerated completely)", total)
}

func knownClass(string, error) string { return "" }

func TestPropGenerated(t *testing.T) {
	g := tgen.GenFile(tgen.DefaultOptions)
	rapid.Check(t, func(t *rapid.T) {
		f := g.Draw(t, "file")
		src, recs := tgen.Print(f, "P")
		var exprs []exprAt
		for _, r := range recs {
			if r.Slot == "script name" || r.Slot == "script params" {
				continue // script templates are generated as Go string constants, not as Go code
			}
			exprs = append(exprs, exprAt{slot: r.Slot, start: r.Start, text: r.Text})
		}
		if rapid.IntRange(0, 3).Draw(t, "crlf") == 0 {
			// the same program saved with CRLF line endings; the printer's offsets no longer
			// apply, the parser's own expression records are used
			src, exprs = crlf(src), nil
		}
		n, err := decide(src, exprs)
		rec.Eval(n)
		if n > 0 {
			noteNT(src, exprs)
		}
		if err != nil {
			if k := knownClass(src, err); k != "" && ev.IsOpenFinding("C07", k) {
				rec.Excluded(k)
				return
			}
			rec.Fail(t, Case{Source: ev.QStr(src)}, "%v\n%s", err, src)
		}
	})
}

func TestReplay(t *testing.T) {
	for _, r := range ev.RunReplays() {
		t.Logf("%+v", r)
	}
}
