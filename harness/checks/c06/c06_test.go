package c06

import (
	"encoding/json"
	"errors"
	"fmt"
	"os"
	"reflect"
	"strings"
	"testing"
	"time"

	"github.com/a-h/parse"
	"github.com/a-h/templ/parser/v2"
	"pgregory.net/rapid"

	"verif/corpus"
	"verif/ev"
	"verif/oneline"
	"verif/tc"
	"verif/tgen"
)

func TestMain(m *testing.M) {
	code := m.Run()
	ev.FlushAll()
	os.Exit(code)
}

type Case struct {
	Input ev.QStr `json:"input"`
}

var recTotal = ev.New("C06", "c06.totality",
	"byte strings derived from the seed corpus (every .templ file of the repository, the formatter test inputs/outputs, tgen programs): truncations at sampled (quick) or all (thorough) byte offsets, and 1..4 rapid-drawn structure-aware mutations (insert/delete/duplicate of templ, Go and HTML tokens incl. unbalanced braces/quotes/tags, multi-byte characters, invalid UTF-8, CRLF conversion); thorough adds native coverage-guided fuzzing. "+
		"Oracle: parser.ParseString returns within 10 s without panicking; a parse.ParseError has its index within [0,len] and line/column consistent with the index. Non-trivial = the input differs from every seed and parses or fails at an offset > 0; distinct by input")

var recPos = ev.New("C06", "c06.positions",
	"for every input above that templ generate accepts (parse + generate + gofmt), the tree is walked by reflection: every recorded Go expression has 0 <= from <= to <= len, line/column recomputed from the byte index agree, the source at the range start begins with the recorded text; element and attribute name ranges slice to exactly the name; for tgen programs every expression the printer emitted is found in the tree at its recorded byte offset. "+
		"Non-trivial = the accepted input holds an expression that spans lines or follows a multi-byte character on its line; distinct by input")

type parseOutcome struct {
	tf  parser.TemplateFile
	err error
	pan any
}

func parseBounded(src string) (parseOutcome, bool) {
	ch := make(chan parseOutcome, 1)
	go func() {
		var o parseOutcome
		defer func() {
			if x := recover(); x != nil {
				o.pan = x
			}
			ch <- o
		}()
		o.tf, o.err = parser.ParseString(src)
	}()
	select {
	case o := <-ch:
		return o, true
	case <-time.After(10 * time.Second):
		return parseOutcome{}, false
	}
}

func lineCol(src string, idx int) (line, col int) {
	line = strings.Count(src[:idx], "\n")
	col = idx - (strings.LastIndex(src[:idx], "\n") + 1)
	return
}

// decideTotal returns the parse outcome for further checks.
func decideTotal(src string) (parseOutcome, error) {
	t0 := time.Now()
	o, ok := parseBounded(src)
	if !ok {
		return o, fmt.Errorf("parsing %d bytes did not finish within 10s", len(src))
	}
	if o.pan != nil {
		return o, fmt.Errorf("parser panicked: %v", o.pan)
	}
	recTotal.Set("slowest_parse_ms", 0)
	if d := time.Since(t0); d > 2*time.Second {
		recTotal.Class("slower-than-2s")
	}
	if o.err != nil {
		var pe parse.ParseError
		if errors.As(o.err, &pe) {
			if pe.Pos.Index < 0 || pe.Pos.Index > len(src) {
				return o, fmt.Errorf("parse error position index %d outside the input (len %d): %v", pe.Pos.Index, len(src), o.err)
			}
			l, c := lineCol(src, pe.Pos.Index)
			if pe.Pos.Line != l || pe.Pos.Col != c {
				return o, fmt.Errorf("parse error position line %d col %d disagrees with its index %d (line %d col %d): %v", pe.Pos.Line, pe.Pos.Col, pe.Pos.Index, l, c, o.err)
			}
		}
	}
	return o, nil
}

var exprType = reflect.TypeOf(parser.Expression{})
var rangeType = reflect.TypeOf(parser.Range{})

type foundExpr struct {
	Path  string
	Value string
	R     parser.Range
}

type foundName struct {
	Path string
	Name string
	R    parser.Range
}

func walk(v reflect.Value, path string, exprs *[]foundExpr, names *[]foundName, depth int) {
	if depth > 200 {
		return
	}
	switch v.Kind() {
	case reflect.Interface, reflect.Ptr:
		if !v.IsNil() {
			walk(v.Elem(), path, exprs, names, depth+1)
		}
	case reflect.Slice, reflect.Array:
		for i := 0; i < v.Len(); i++ {
			walk(v.Index(i), fmt.Sprintf("%s[%d]", path, i), exprs, names, depth+1)
		}
	case reflect.Struct:
		if v.Type() == exprType {
			e := v.Interface().(parser.Expression)
			*exprs = append(*exprs, foundExpr{Path: path, Value: e.Value, R: e.Range})
			return
		}
		t := v.Type()
		for i := 0; i < v.NumField(); i++ {
			f := t.Field(i)
			if !f.IsExported() {
				continue
			}
			if f.Name == "NameRange" && f.Type == rangeType {
				if nf := v.FieldByName("Name"); nf.IsValid() && nf.Kind() == reflect.String {
					*names = append(*names, foundName{Path: path + "." + t.Name(), Name: nf.String(), R: v.Field(i).Interface().(parser.Range)})
				}
				continue
			}
			walk(v.Field(i), path+"."+f.Name, exprs, names, depth+1)
		}
	}
}

func checkPos(src string, p parser.Position, what string) error {
	if p.Index < 0 || int(p.Index) > len(src) {
		return fmt.Errorf("%s index %d outside the input (len %d)", what, p.Index, len(src))
	}
	l, c := lineCol(src, int(p.Index))
	if int(p.Line) != l || int(p.Col) != c {
		return fmt.Errorf("%s line %d col %d disagrees with index %d (line %d col %d)", what, p.Line, p.Col, p.Index, l, c)
	}
	return nil
}

// decidePositions checks the tree of an accepted input. recs may be nil.
func decidePositions(src string, tf parser.TemplateFile, recs []tgen.Record) error {
	var exprs []foundExpr
	var names []foundName
	walk(reflect.ValueOf(tf), "file", &exprs, &names, 0)
	for _, e := range exprs {
		if e.Value == "" && e.R == (parser.Range{}) {
			continue // an absent optional expression
		}
		if strings.TrimSpace(e.Value) == "" {
			continue // whitespace-only expressions are not Go expressions
		}
		if err := checkPos(src, e.R.From, e.Path+" from"); err != nil {
			return fmt.Errorf("%v (expression %q)", err, clip(e.Value))
		}
		if err := checkPos(src, e.R.To, e.Path+" to"); err != nil {
			return fmt.Errorf("%v (expression %q)", err, clip(e.Value))
		}
		if e.R.From.Index > e.R.To.Index {
			return fmt.Errorf("%s: range %d..%d is not ordered (expression %q)", e.Path, e.R.From.Index, e.R.To.Index, clip(e.Value))
		}
		if !strings.HasPrefix(src[e.R.From.Index:], e.Value) {
			return fmt.Errorf("%s: source at index %d is %q, recorded expression is %q", e.Path, e.R.From.Index, clip(src[e.R.From.Index:]), clip(e.Value))
		}
	}
	for _, n := range names {
		if n.Name == "" && n.R == (parser.Range{}) {
			continue
		}
		if err := checkPos(src, n.R.From, n.Path+" name from"); err != nil {
			return err
		}
		if err := checkPos(src, n.R.To, n.Path+" name to"); err != nil {
			return err
		}
		if n.R.From.Index > n.R.To.Index || src[n.R.From.Index:n.R.To.Index] != n.Name {
			return fmt.Errorf("%s: name range %d..%d covers %q, the name is %q", n.Path, n.R.From.Index, n.R.To.Index, clip(src[min(int(n.R.From.Index), len(src)):min(max(int(n.R.To.Index), int(n.R.From.Index)), len(src))]), n.Name)
		}
	}
	// every expression the printer emitted must be in the tree where it was put
	for _, r := range recs {
		if r.Slot == "go" || r.Slot == "header" || r.Slot == "script name" || r.Slot == "script params" || r.Slot == "css signature" {
			continue // recorded by the parser in other forms (whole Go blocks, name + parameters)
		}
		ok := false
		for _, e := range exprs {
			// the parser may include the padding inside { } and a trailing comma in the expression text
			lead := len(e.Value) - len(strings.TrimLeft(e.Value, " \t\r\n"))
			if int(e.R.From.Index)+lead == r.Start && strings.TrimRight(strings.TrimSpace(e.Value), ", \t\n") == strings.TrimSpace(r.Text) {
				ok = true
				break
			}
		}
		if !ok {
			return fmt.Errorf("expression %q (%s) written at byte %d is not in the parsed tree at that position", clip(r.Text), r.Slot, r.Start)
		}
	}
	return nil
}

func clip(s string) string {
	if len(s) > 80 {
		return s[:80] + "..."
	}
	return s
}

func isSeed(s string) bool {
	for _, sd := range corpus.Seeds() {
		if sd.Text == s {
			return true
		}
	}
	return false
}

func interesting(src string) bool {
	for _, line := range strings.Split(src, "\n") {
		if i := strings.IndexAny(line, "{"); i >= 0 {
			for _, r := range line[:i] {
				if r >= 0x80 {
					return true
				}
			}
		}
	}
	return false
}

// decide runs both oracles on one input.
func decide(src string, recs []tgen.Record, seedInput bool) error {
	recTotal.Eval(1)
	o, err := decideTotal(src)
	if err != nil {
		return err
	}
	if !seedInput {
		var pe parse.ParseError
		if o.err == nil || (errors.As(o.err, &pe) && pe.Pos.Index > 0) {
			recTotal.NonTrivial(src, func() any { return map[string]any{"input": clip(src), "bytes": len(src), "parsed": o.err == nil} })
		}
	}
	if o.err != nil {
		recTotal.Class("rejected")
		return nil
	}
	recTotal.Class("parsed")
	if _, _, gerr := tc.Generate(src, "f.templ"); gerr != nil {
		if strings.Contains(gerr.Error(), "panic in") {
			return fmt.Errorf("templ generate panics on an input the parser accepts: %v", gerr)
		}
		return nil
	}
	recPos.Eval(1)
	if interesting(src) || strings.Contains(src, "+\n") {
		recPos.NonTrivial(src, func() any { return clip(src) })
	}
	if err := decidePositions(src, o.tf, recs); err != nil {
		return fmt.Errorf("positions: %v", err)
	}
	return nil
}

func init() {
	f := func(raw json.RawMessage) error {
		var c Case
		if err := json.Unmarshal(raw, &c); err != nil {
			return err
		}
		return decide(string(c.Input), nil, false)
	}
	ev.RegisterReplay("c06.totality", f)
	ev.RegisterReplay("c06.positions", f)
}

func fail(t ev.Failer, src string, err error) {
	if strings.Contains(err.Error(), "did not finish within") {
		// The parser is still spinning in its goroutine and would starve everything that follows
		// (shrinking included): record the input as it is and end the process now.
		recTotal.WriteViolation(Case{Input: ev.QStr(src)}, err.Error()+"\ninput:\n"+clip2(src))
		ev.FlushAll()
		fmt.Printf("c06.totality: %v\ninput:\n%s\n", err, clip2(src))
		os.Exit(1)
	}
	if strings.HasPrefix(err.Error(), "positions:") {
		recPos.Fail(t, Case{Input: ev.QStr(src)}, "%v\ninput:\n%s", err, clip2(src))
	}
	recTotal.Fail(t, Case{Input: ev.QStr(src)}, "%v\ninput:\n%s", err, clip2(src))
}

func clip2(s string) string {
	if len(s) > 1500 {
		return s[:1500] + "..."
	}
	return s
}

func TestPropSeeds(t *testing.T) {
	for _, sd := range corpus.Seeds() {
		if err := decide(sd.Text, nil, true); err != nil {
			fail(t, sd.Text, fmt.Errorf("%s: %w", sd.Name, err))
		}
	}
}

// TestPropLayouts enumerates the layout family (package oneline): expressions, parameter lists,
// statement heads and attribute lists with every placement of blanks and line breaks between
// their tokens. Members the parser rejects exercise totality, the others position faithfulness.
func TestPropLayouts(t *testing.T) {
	shard, shards := ev.Shard()
	gaps := oneline.QuickGaps
	if ev.Thorough() {
		gaps = oneline.ThoroughGaps
	}
	n := 0
	oneline.EachLayout(shard, shards, gaps, func(name, src string) {
		n++
		if err := decide(src, nil, false); err != nil {
			fail(t, src, fmt.Errorf("layout %s: %w", name, err))
		}
	})
	recPos.ClassN("layout family (enumerated completely)", n)
}

// TestPropDeep: every layout nested 0..24 levels deep in each kind of block (package oneline).
func TestPropDeep(t *testing.T) {
	shard, shards := ev.Shard()
	n := 0
	oneline.EachDeep(shard, shards, 24, func(name, src string) {
		n++
		if err := decide(src, nil, false); err != nil {
			fail(t, src, fmt.Errorf("nested %s: %w", name, err))
		}
	})
	recPos.ClassN("layouts nested 0..24 levels deep (enumerated completely)", n)
}

var cutAfter = []string{"if", "else", "else if", "for", "switch", "case", "default", "default:", "templ", "script", "css", "import", "package", "@", "{{", "...", "children", "range", "func", "={", "?={", "{!", "<!--", "<script", "<style", "</"}

func TestPropTruncations(t *testing.T) {
	shard, shards := ev.Shard()
	stride := ev.Pick(23, 1)
	n := 0
	for si, sd := range corpus.Seeds() {
		if si%shards != shard {
			continue
		}
		for cut := (si % stride); cut < len(sd.Text); cut += stride {
			n++
			if err := decide(sd.Text[:cut], nil, false); err != nil {
				fail(t, sd.Text[:cut], err)
			}
		}
	}
	// structure-aware cuts (both tiers): the input ends directly after a keyword or an opening
	// token, with and without the byte that follows it - where a parser looks ahead for something
	// that is not there
	if !ev.Thorough() {
		m := 0
		for si, sd := range corpus.Seeds() {
			if si%shards != shard {
				continue
			}
			seen := map[int]bool{}
			for _, kw := range cutAfter {
				for from := 0; ; {
					i := strings.Index(sd.Text[from:], kw)
					if i < 0 {
						break
					}
					end := from + i + len(kw)
					from = end
					for _, cut := range []int{end, end + 1} {
						if cut > len(sd.Text) || seen[cut] {
							continue
						}
						seen[cut] = true
						m++
						if err := decide(sd.Text[:cut], nil, false); err != nil {
							fail(t, sd.Text[:cut], err)
						}
					}
				}
			}
		}
		recTotal.ClassN("truncations after a keyword or opening token", m)
	}
	recTotal.ClassN("truncations", n)
	recTotal.Set("all_truncations_enumerated", ev.Thorough())
}

var tokens = []string{"{", "}", "{{", "}}", "<", "</", ">", "/>", "\"", "'", "`", "@", "if ", "else", "} else {", "for ", "switch ", "case ", "default:", "templ ", "css ", "script ", "<!--", "-->", "//", "/*", "*/",
	"...", "?=", "<script>", "</script>", "<style>", "</style>", "\r\n", "\n", "\t", " ", "é", "😀", "\xff", "\xc3", "{ children... }", "{! ", "package ", "import ", "(", ")", "=", "={", "={ ", "\\", "$", ":", ";", "<div>", "</div>", "<br>", "<br/>", "x", "\x00", "\ufeff"}

var genMutated = rapid.Custom(func(t *rapid.T) string {
	seeds := corpus.Seeds()
	s := seeds[rapid.IntRange(0, len(seeds)-1).Draw(t, "seed")].Text
	if len(s) > 4000 {
		off := rapid.IntRange(0, len(s)-4000).Draw(t, "window")
		s = s[off : off+4000]
	}
	for i, n := 0, rapid.IntRange(1, 4).Draw(t, "nmut"); i < n; i++ {
		pos := rapid.IntRange(0, len(s)).Draw(t, "pos")
		switch rapid.IntRange(0, 7).Draw(t, "mut") {
		case 6, 7:
			// declaration-header mutation: change the keyword of a top-level declaration line, or put
			// something unexpected between the keyword and the name
			lines := strings.Split(s, "\n")
			var decls []int
			for li, l := range lines {
				for _, kw := range []string{"templ ", "css ", "script ", "func ", "type ", "var ", "import ", "package "} {
					if strings.HasPrefix(l, kw) {
						decls = append(decls, li)
					}
				}
			}
			if len(decls) == 0 {
				continue
			}
			li := decls[rapid.IntRange(0, len(decls)-1).Draw(t, "decl")]
			l := lines[li]
			sp := strings.Index(l, " ")
			switch rapid.IntRange(0, 2).Draw(t, "hdr") {
			case 0: // another keyword
				l = rapid.SampledFrom([]string{"templ", "css", "script", "func", "if", "for", "switch", "package"}).Draw(t, "kw") + l[sp:]
			case 1: // something between keyword and name
				l = l[:sp+1] + rapid.SampledFrom([]string{" ", "_", "1", "(", "(r R) ", "é", "*", "[", "{", ".", "\t"}).Draw(t, "ins") + l[sp+1:]
			default: // drop the name's first character
				if sp+2 < len(l) {
					l = l[:sp+1] + l[sp+2:]
				}
			}
			lines[li] = l
			s = strings.Join(lines, "\n")
			continue
		case 0, 1:
			s = s[:pos] + rapid.SampledFrom(tokens).Draw(t, "tok") + s[pos:]
		case 2:
			end := min(len(s), pos+rapid.IntRange(1, 12).Draw(t, "dellen"))
			s = s[:pos] + s[end:]
		case 3:
			end := min(len(s), pos+rapid.IntRange(1, 40).Draw(t, "duplen"))
			s = s[:end] + s[pos:end] + s[end:]
		case 4:
			s = strings.ReplaceAll(s, "\n", "\r\n")
		case 5:
			s = s[:pos] + rapid.SampledFrom([]string{"é", "世界", "😀 "}).Draw(t, "mb") + s[pos:]
		}
	}
	return s
})

// filePrefixes: what editors and tools put in front of a file's first byte.
var filePrefixes = []string{"\ufeff", "\ufeff\ufeff", "\xef\xbb", "\ufeff\n", "\ufeff// c\n", "\n\n", " ", "\t", "\r\n", "\x00", "\u200b", "#!/usr/bin/env templ\n", "\ufffe"}

// TestPropPrefixes puts each of them in front of every seed file.
func TestPropPrefixes(t *testing.T) {
	shard, shards := ev.Shard()
	n := 0
	for si, sd := range corpus.Seeds() {
		if si%shards != shard || len(sd.Text) > 20000 {
			continue
		}
		for _, pre := range filePrefixes {
			n++
			if err := decide(pre+sd.Text, nil, false); err != nil {
				fail(t, pre+sd.Text, err)
			}
		}
	}
	recTotal.ClassN("seed files behind a byte order mark or other leading bytes", n)
}

func TestPropMutations(t *testing.T) {
	rapid.Check(t, func(t *rapid.T) {
		src := genMutated.Draw(t, "input")
		if err := decide(src, nil, isSeed(src)); err != nil {
			fail(t, src, err)
		}
	})
}

func TestPropGenerated(t *testing.T) {
	g := tgen.GenFile(tgen.DefaultOptions)
	rapid.Check(t, func(t *rapid.T) {
		f := g.Draw(t, "file")
		src, recs := tgen.Print(f, "P")
		if err := decide(src, recs, false); err != nil {
			fail(t, src, err)
		}
	})
}

// goToks: what can stand where templ hands the rest of the input to go/parser or go/scanner to find
// the end of a Go expression. Most sequences are not valid Go; go/parser runs in error-recovering
// mode there, so what matters is what templ does with the partial syntax tree.
var goToks = []string{"a", "A", "b.c", "0", "1.5", `"s"`, `"{"`, `"}"`, "`r`", "`}`", "'c'", "'}'", "{", "}", "(", ")", "[", "]", ".", ",", ":", ";", " ", "  ", "\n", "\t",
	"func", "func()", "struct{}", "map[string]int", "[]any", "[]string", "interface{}", "+", "-", "*", "&", "!", "<", ">", "<=", "==", "!=", "&&", "||", "=", ":=", "//", "// c\n", "/*", "*/", "/* } */", "...",
	"é", "世", `"`, "`", "'", "\\", "if", "else", "for", "range", "switch", "case", "default", "return", "go", "defer", "chan", "<-", "%", "|", "^", "?", "@", "#", "$", "_", "nil", "true", "len(a)", "a[0]", "a[1:2]",
	"fmt.Sprint(a)", "templ.KV(a, b)", "T{A: 1}", "&T{}", "[]T{{1}, {2}}", "func() string { return a }()", "x.(string)", "a...", "i := 0; i < 3; i++", "_, x := range xs", "x := a.(type)"}

// goExprs are complete Go expressions / clause headers that templ has to find the end of.
var goExprs = []string{"a", "b", `"s"`, "a + b", "fmt.Sprint(a)", `T{A: "x"}.S`, "[]string{a, b}[0]", "func() string { return a }()", "m[a]", "a[1:2]", "x.(string)", "strings.ToUpper(a)",
	"`raw`", `"}"`, "`{`", `"{{"`, "'}'", `T{}.M(a, "}")`, "[]T{{a}, {b}}[0].S", "map[string]string{a: b}[a]", "(a)", "a /* } */ + b", "a + // }\n\t\tb", "struct{ S string }{a}.S",
	`fmt.Sprintf("%s{%d}", a, 1)`, "T{\n\t\tA: a,\n\t}.S", "f(func() { g() })", "a == b", "len(xs) > 0", "!ok", "i := 0; i < 3; i++", "_, x := range xs", "i := range 3", "x := v.(type)",
	"é", `"é世" + a`, "templ.KV(a, true)", `templ.Attributes{"a": a}`, "comp(a, b)", "pkg.Comp{A: a}.View()", "comps[0]", "T[string]{V: a}.View()", "a[len(a)-1:]", "*p", "&T{}", "<-ch", "-1", "^x", "a<<2"}

// goConts: template text that a Go parser would take as the continuation of the expression in
// front of it.
var goConts = []string{".A", ".A{ a }", ".A{A{ \"0\" }}", ".b{ T{} }", "(a)", "[0]", "{ b }", "{ T{A: a}.S }", "+ b", ".(string)", "...", ", b }", "}", "{", " }", ".A }", "{}", "{{ a }}", "[]T{}", "()"}

// genGoShaped puts token sequences into every position where templ expects Go: string
// expressions, attribute values, class lists, spreads, calls with and without blocks, if / else
// if / for / switch / case headers, raw Go blocks, template parameter lists, script arguments.
var genGoShaped = rapid.Custom(func(t *rapid.T) string {
	expr := func(label string) string {
		var sb strings.Builder
		// four fifths of the expressions are complete Go (with braces, brackets, quotes and comments in
		// places where a naive scan for the closing brace goes wrong), optionally joined by an
		// operator; the rest is token soup
		if rapid.IntRange(0, 4).Draw(t, label+"-valid") > 0 {
			sb.WriteString(rapid.SampledFrom(goExprs).Draw(t, label+"-v1"))
			if rapid.IntRange(0, 2).Draw(t, label+"-more") == 0 {
				sb.WriteString(rapid.SampledFrom([]string{" + ", " +\n\t\t", " == ", " && ", ", ", "."}).Draw(t, label+"-op"))
				sb.WriteString(rapid.SampledFrom(goExprs).Draw(t, label+"-v2"))
			}
			return sb.String()
		}
		for i, n := 0, rapid.IntRange(1, 7).Draw(t, label+"-n"); i < n; i++ {
			sb.WriteString(rapid.SampledFrom(goToks).Draw(t, label))
		}
		return sb.String()
	}
	var sb strings.Builder
	sb.WriteString("package p\n\n")
	if rapid.IntRange(0, 5).Draw(t, "params") == 0 {
		sb.WriteString("templ T(" + expr("param") + ") {\n")
	} else {
		sb.WriteString("templ T(a, b string, xs []string) {\n")
	}
	for i, n := 0, rapid.IntRange(1, 4).Draw(t, "nodes"); i < n; i++ {
		e := expr("e")
		switch rapid.IntRange(0, 17).Draw(t, "shape") {
		case 16:
			// text that reads like the continuation of the Go expression directly after its brace
			sb.WriteString("\t{ " + e + " }" + rapid.SampledFrom(goConts).Draw(t, "cont") + "\n")
		case 17:
			sb.WriteString("\t<div title={ " + e + " }" + rapid.SampledFrom(goConts).Draw(t, "cont") + ">x</div>\n")
		case 0:
			sb.WriteString("\t{ " + e + " }\n")
		case 1:
			sb.WriteString("\t{" + e + "}\n")
		case 2:
			sb.WriteString("\t<div title={ " + e + " }>x</div>\n")
		case 3:
			sb.WriteString("\t<div class={ " + e + " }>x</div>\n")
		case 4:
			sb.WriteString("\t<div { " + e + "... }>x</div>\n")
		case 5:
			sb.WriteString("\t<input disabled?={ " + e + " }/>\n")
		case 6:
			sb.WriteString("\t@" + e + "\n")
		case 7:
			sb.WriteString("\t@" + e + " {\n\t\t<b>x</b>\n\t}\n")
		case 8:
			sb.WriteString("\tif " + e + " {\n\t\t<b>x</b>\n\t} else if " + expr("e2") + " {\n\t\ty\n\t}\n")
		case 9:
			sb.WriteString("\tfor " + e + " {\n\t\t<b>x</b>\n\t}\n")
		case 10:
			sb.WriteString("\tswitch " + e + " {\n\t\tcase " + expr("e2") + ":\n\t\t\t<b>x</b>\n\t\tdefault:\n\t\t\ty\n\t}\n")
		case 11:
			sb.WriteString("\t{{ " + e + " }}\n")
		case 12:
			sb.WriteString("\t<a href={ " + e + " }>x</a>\n")
		case 13:
			sb.WriteString("\t<div\n\t\tif " + e + " {\n\t\t\tid={ " + expr("e2") + " }\n\t\t}\n\t>x</div>\n")
		case 14:
			sb.WriteString("\t<script>var v = {{ " + e + " }}; var w = \"{{ " + expr("e2") + " }}\";</script>\n")
		default:
			sb.WriteString("\t<button onclick={ " + e + " }>x</button> { " + expr("e2") + " } tail\n")
		}
	}
	sb.WriteString("}\n")
	if rapid.IntRange(0, 4).Draw(t, "tail") == 0 {
		sb.WriteString("\nfunc f(" + expr("fp") + ") string { return \"\" }\n\ntempl U() {\n\t<p>{ f() }</p>\n}\n")
	}
	return sb.String()
})

func TestPropGoShaped(t *testing.T) {
	rapid.Check(t, func(t *rapid.T) {
		src := genGoShaped.Draw(t, "input")
		if _, _, gerr := tc.Generate(src, "f.templ"); gerr == nil {
			recPos.Class("go-shaped input accepted by templ generate")
		} else {
			recPos.Class("go-shaped input rejected")
		}
		if err := decide(src, nil, false); err != nil {
			fail(t, src, err)
		}
	})
}

func FuzzParse(f *testing.F) {
	for i, sd := range corpus.Seeds() {
		if i%3 == 0 && len(sd.Text) < 3000 {
			f.Add([]byte(sd.Text))
		}
	}
	f.Fuzz(func(t *testing.T, data []byte) {
		if len(data) > 16<<10 {
			return
		}
		if err := decide(string(data), nil, false); err != nil {
			fail(t, string(data), err)
		}
	})
}

func TestReplay(t *testing.T) {
	for _, r := range ev.RunReplays() {
		t.Logf("%+v", r)
	}
}
