package c14

import (
	"bytes"
	"encoding/json"
	"fmt"
	"strings"
	"testing"
	"time"

	"pgregory.net/rapid"

	"verif/batch"
	"verif/ev"
	"verif/tbatch"
	"verif/tc"
	"verif/tgen"
	"verif/watchbuild"
)

// DevPlan: programs generated in development mode, rendered by several goroutines of one
// race-instrumented process that all read the shared text-file cache.
type DevPlan struct {
	Files    []*tgen.File `json:"files"`
	Jobs     []tbatch.Job `json:"jobs"`
	Parallel int          `json:"parallel"`
	// MinMs > 0: the goroutines keep re-rendering their jobs for that long; TouchMs > 0: meanwhile
	// every development text file is replaced (same content, new modification time) at that
	// period, so renders overlap the cache's reload path.
	MinMs   int `json:"min_ms,omitempty"`
	TouchMs int `json:"touch_ms,omitempty"`
}

var recDev = ev.New("C14", "c14.devmode-concurrent",
	"batches of tgen programs are generated the way `templ generate --watch` does (development text files), compiled with -race, and every (program, arguments, writer fault) job is rendered once sequentially in normal mode (the reference) and then by 2..16 goroutines at the same time in development mode, where all of them read templ's shared text-file cache; in two thirds of the plans the goroutines keep re-rendering for 350-700 ms while every development text file is replaced (same content, new modification time, temporary file + rename) every 20-90 ms, so that renders overlap the cache's reload path the way they do after an edit under `templ generate --watch`. "+
		"Oracle: the race-instrumented process reports no data race and exits normally; every concurrent development-mode render - each repetition of it - equals its sequential reference (output bytes and error status). Non-trivial = >=4 goroutines and a job list in which the same program is rendered by different goroutines; distinct by plan")

func decideDev(p DevPlan) error {
	proj, err := watchbuild.New(len(p.Files))
	if err != nil {
		panic("harness: " + err.Error())
	}
	defer proj.Close()
	for i, f := range p.Files {
		tgen.Normalize(f)
		src, _ := tgen.Print(f, fmt.Sprintf("P%d", i))
		if _, err := proj.Put(i, src); err != nil {
			return nil // not accepted
		}
	}
	if err := proj.Build(true); err != nil {
		if _, ok := err.(*batch.BuildError); ok {
			return nil // compile problems are C02's business
		}
		panic("harness: " + err.Error())
	}
	bin := &tbatch.Binary{Dir: proj.Dir, Path: proj.Bin}
	ref, err := bin.Run(p.Jobs, nil, 180*time.Second)
	if err != nil {
		panic("harness: sequential reference run failed: " + err.Error())
	}
	env := append(proj.DevEnv(), fmt.Sprintf("VERIF_PARALLEL=%d", p.Parallel), "GORACE=halt_on_error=1 atexit_sleep_ms=0",
		fmt.Sprintf("VERIF_MIN_MS=%d", p.MinMs), fmt.Sprintf("VERIF_TOUCH_MS=%d", p.TouchMs))
	got, err := bin.Run(p.Jobs, env, 180*time.Second)
	if err != nil {
		if strings.Contains(err.Error(), "DATA RACE") {
			return fmt.Errorf("data race in concurrent development-mode rendering: %s", firstLines(err.Error(), 25))
		}
		return fmt.Errorf("concurrent development-mode run failed: %s", firstLines(err.Error(), 25))
	}
	for i := range p.Jobs {
		if got[i].Err != ref[i].Err {
			return fmt.Errorf("job %d: concurrent development-mode error %q, sequential %q", i, got[i].Err, ref[i].Err)
		}
		if !bytes.Equal(got[i].Out, ref[i].Out) {
			return fmt.Errorf("job %d: concurrent development-mode render gives %q, alone it gives %q", i, clip(got[i].Out), clip(ref[i].Out))
		}
	}
	return nil
}

func firstLines(s string, n int) string {
	l := strings.Split(s, "\n")
	if len(l) > n {
		l = l[:n]
	}
	return strings.Join(l, "\n")
}

func init() {
	ev.RegisterReplay("c14.devmode-concurrent", func(raw json.RawMessage) error {
		var p DevPlan
		if err := json.Unmarshal(raw, &p); err != nil {
			return err
		}
		for i := 0; i < 5; i++ {
			if err := decideDev(p); err != nil {
				return err
			}
		}
		return nil
	})
}

func TestPropDevModeConcurrent(t *testing.T) {
	o := tgen.DefaultOptions
	o.Ticks = false // tick() writes a package variable: the harness's own trace must not race
	g := tgen.GenFile(o)
	ga := tgen.GenArgs()
	nFiles := ev.Pick(8, 16)
	rapid.Check(t, func(t *rapid.T) {
		p := DevPlan{Parallel: rapid.SampledFrom([]int{2, 4, 8, 16}).Draw(t, "parallel")}
		for len(p.Files) < nFiles {
			f := g.Draw(t, "file")
			src, _ := tgen.Print(f, "P")
			if _, _, err := tc.Generate(src, "p.templ"); err != nil {
				continue
			}
			p.Files = append(p.Files, f)
		}
		for i, n := 0, rapid.IntRange(16, 96).Draw(t, "njobs"); i < n; i++ {
			j := tbatch.Plain(rapid.IntRange(0, nFiles-1).Draw(t, "k"), ga.Draw(t, "args"))
			if rapid.IntRange(0, 4).Draw(t, "fault") == 0 {
				j.WriterFailAt = rapid.IntRange(0, 200).Draw(t, "failAt")
			}
			p.Jobs = append(p.Jobs, j)
		}
		if rapid.IntRange(0, 2).Draw(t, "touch") > 0 {
			p.MinMs = rapid.IntRange(350, 700).Draw(t, "minMs")
			p.TouchMs = rapid.IntRange(20, 90).Draw(t, "touchMs")
			recDev.Class("text files replaced during the run")
		}
		recDev.Eval(len(p.Jobs))
		if p.Parallel >= 4 {
			recDev.NonTrivial(fmt.Sprint(p.Parallel, p.MinMs, p.TouchMs, p.Jobs), func() any {
				return map[string]any{"parallel": p.Parallel, "jobs": len(p.Jobs), "programs": len(p.Files), "min_ms": p.MinMs, "touch_ms": p.TouchMs}
			})
		}
		if err := decideDev(p); err != nil {
			recDev.Fail(t, p, "%v", err)
		}
	})
}
