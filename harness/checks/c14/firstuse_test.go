package c14

import (
	"bytes"
	"context"
	"encoding/json"
	"fmt"
	"runtime"
	"sync"
	"sync/atomic"
	"testing"

	"verif/ev"
)

// FirstUseCase: a component value that has never been rendered is rendered for the first time by
// several goroutines at once (a package-level component hit by the first requests after start-up).
type FirstUseCase struct {
	Comp       int `json:"comp"`
	Goroutines int `json:"goroutines"`
	Trials     int `json:"trials"`
}

var recFirst = ev.New("C14", "c14.first-use",
	"for every component of the table, many trials: a fresh value of the component (with whatever lazily initialised state it carries - once handles, script and css values) is rendered for the first time by 2-8 goroutines released together by a spin barrier, each with its own context and buffer. "+
		"Oracle: every render returns nil and gives byte for byte the document the component gives alone; no data race. Enumerated: every component x goroutine counts 2, 4, 8")

func decideFirstUse(c FirstUseCase) error {
	cm := table[c.Comp%len(table)]
	var ref bytes.Buffer
	if err := cm.mk().Render(context.Background(), &ref); err != nil {
		panic("harness: " + cm.name + ": " + err.Error())
	}
	for trial := 0; trial < c.Trials; trial++ {
		comp := cm.mk()
		outs := make([]bytes.Buffer, c.Goroutines)
		errs := make([]error, c.Goroutines)
		var ready int32
		var wg sync.WaitGroup
		for g := 0; g < c.Goroutines; g++ {
			wg.Add(1)
			go func() {
				defer wg.Done()
				atomic.AddInt32(&ready, 1)
				for atomic.LoadInt32(&ready) < int32(c.Goroutines) {
					runtime.Gosched()
				}
				errs[g] = comp.Render(context.Background(), &outs[g])
			}()
		}
		wg.Wait()
		if r := ev.RaceCheck(); r != "" {
			return fmt.Errorf("first use of a %s value by %d goroutines at once: the race detector reported\n%s", cm.name, c.Goroutines, r)
		}
		for g := range outs {
			if errs[g] != nil {
				return fmt.Errorf("first use of a %s value by %d goroutines at once (trial %d): render %d returned %v", cm.name, c.Goroutines, trial, g, errs[g])
			}
			if !bytes.Equal(outs[g].Bytes(), ref.Bytes()) {
				return fmt.Errorf("first use of a %s value by %d goroutines at once (trial %d): render %d gave %q, alone the component gives %q", cm.name, c.Goroutines, trial, g, clipB(outs[g].Bytes()), clipB(ref.Bytes()))
			}
		}
	}
	return nil
}

func clipB(b []byte) string {
	if len(b) > 300 {
		return string(b[:300]) + fmt.Sprintf("...(%d bytes)", len(b))
	}
	return string(b)
}

func init() {
	ev.RegisterReplay("c14.first-use", func(raw json.RawMessage) error {
		var c FirstUseCase
		if err := json.Unmarshal(raw, &c); err != nil {
			return err
		}
		return decideFirstUse(c)
	})
}

func TestPropFirstUse(t *testing.T) {
	trials := ev.Pick(150, 1500)
	n := 0
	for i := range table {
		for _, g := range []int{2, 4, 8} {
			c := FirstUseCase{Comp: i, Goroutines: g, Trials: trials}
			n++
			recFirst.Eval(trials)
			if err := decideFirstUse(c); err != nil {
				recFirst.Fail(t, c, "%v", err)
			}
		}
	}
	recFirst.Enumerated(int64(n))
}
