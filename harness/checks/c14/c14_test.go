package c14

import (
	"bufio"
	"bytes"
	"context"
	"encoding/json"
	"errors"
	"fmt"
	"io"
	"net/http"
	"net/http/httptest"
	"os"
	"runtime"
	"strings"
	"sync"
	"testing"

	"github.com/a-h/templ"
	"pgregory.net/rapid"

	"verif/ev"
	"verif/fx"
)

func TestMain(m *testing.M) {
	code := m.Run()
	ev.FlushAll()
	os.Exit(code)
}

// Render is one render of a plan: which component, which writer behaviour.
type Render struct {
	Comp    int `json:"comp"`    // index into the component table
	Yield   int `json:"yield"`   // > 0: the writer yields the processor every Yield bytes
	FailAt  int `json:"fail_at"` // >= 0: the writer fails at that byte offset
	Chunked int `json:"chunked"` // > 0: the writer accepts at most that many bytes per Write
	// Bufio: render into the goroutine's own long-lived bufio.Writer (4 KiB, in front of a sink only
	// this goroutine uses) and flush it afterwards; what reached the sink must be the document.
	Bufio bool `json:"bufio"`
}

type Plan struct {
	Goroutines [][]Render `json:"goroutines"`
	Procs      int        `json:"procs"`
	SharedCtx  bool       `json:"shared_values"` // render the same component *values* (created once) from all goroutines
	EmptyPools bool       `json:"empty_pools"`   // two garbage collections first, so that templ's buffer pools start empty
	// Middleware: every render is one request through a single templ.NewCSSMiddleware shared by all
	// goroutines (it prepares each request's context); the registered class is one no fixture uses,
	// so the documents are the same as without it.
	Middleware bool `json:"middleware,omitempty"`
	// ViaHandler: every render is a request served by templ.Handler in buffered mode (it renders
	// into the root package's pooled byte buffer); a render with a failing writer becomes a
	// component that fails after that many bytes, i.e. a failed request.
	ViaHandler bool `json:"via_handler,omitempty"`
}

type limitWriter struct {
	w    io.Writer
	left int
}

func (l *limitWriter) Write(p []byte) (int, error) {
	if len(p) > l.left {
		n, _ := l.w.Write(p[:l.left])
		l.left = 0
		return n, errW
	}
	l.left -= len(p)
	return l.w.Write(p)
}

func failAfter(c templ.Component, k int) templ.Component {
	return templ.ComponentFunc(func(ctx context.Context, w io.Writer) error {
		return c.Render(ctx, &limitWriter{w: w, left: k})
	})
}

type renderJobKey struct{}

var rec = ev.New("C14", "c14.concurrent",
	"plans of 2..16 goroutines x 1..6 renders over a table of compiled fixture components (text/attribute sinks with control flow, script elements with Go values, css components, script templates, once handles, wrapper components with child blocks, JSON script, and the components that come with the runtime - templ.Raw, templ.Join, a once handle with its own component, templ.Flush, templ.JSONScript, templ.JSFuncCall), each render with its own context and writer (fast, yielding every w bytes, chunked, failing at byte k, or the goroutine's own long-lived bufio.Writer), GOMAXPROCS 1, 2 or 16, component values created per render or shared by all goroutines, in a quarter of the plans every render being a request through one shared templ.NewCSSMiddleware, in another quarter a request served by templ.Handler in buffered mode (failing writers become failing components there); the test binary is built with -race. "+
		"Oracle: no data race report (the race detector fails the process), every successful render equals the sequential reference of that component byte for byte, every failed one is a prefix of it and returns the writer's error. "+
		"Non-trivial = >=2 goroutines render the same component with at least one failing writer among them; distinct by plan. Schedules are sampled by the Go scheduler, not enumerated")

type comp struct {
	name string
	mk   func() templ.Component
}

var uses = []fx.EUse{
	{Kind: "script-call", A: 0, S: "x"}, {Kind: "on-attr", A: 1}, {Kind: "class-direct", A: 0}, {Kind: "class-mixed", A: 2, B: 1, N: 5},
	{Kind: "once-block", A: 0, Kids: []fx.EUse{{Kind: "class-kv", A: 1, On: true}}}, {Kind: "once-block", A: 0}, {Kind: "once-fixed"},
	{Kind: "wrap", Kids: []fx.EUse{{Kind: "on-attr2", A: 0, B: 2, N: 3, S: "y"}, {Kind: "once-block", A: 1}}}, {Kind: "jsfunc-attr", S: "z"},
}

var table = []comp{
	{"TextInControl", func() templ.Component { return fx.TextInControl("<s>&", []string{"a", "b<", "c"}) }},
	{"ClassMixed", func() templ.Component { return fx.ClassMixed("cls") }},
	{"AttrSpread", func() templ.Component { return fx.AttrSpread(templ.Attributes{"title": "t\"", "hidden": true}) }},
	{"ScriptMixed", func() templ.Component { return fx.ScriptMixed(map[string]any{"a": []int{1, 2}}, "it's") }},
	{"EUses", func() templ.Component { return fx.EUses(uses) }},
	{"EUsesLong", func() templ.Component {
		var long []fx.EUse
		for i := 0; i < 40; i++ {
			long = append(long, uses...)
		}
		return fx.EUses(long)
	}},
	{"CSSComponent", func() templ.Component { return fx.CSSComponent("two", "3px") }},
	{"JSONScr", func() templ.Component { return fx.JSONScr(map[string]string{"k": "</script>"}) }},
	{"StyleMulti", func() templ.Component { return fx.StyleMulti("10px") }},
	// components that come with the runtime rather than out of the generator: a value of these is
	// typically made once (a package-level logo, a banner kept in a struct) and rendered by everybody
	{"Raw", func() templ.Component { return templ.Raw("<i>raw &amp; text</i>") }},
	{"RawLong", func() templ.Component { return templ.Raw(strings.Repeat("<p>0123456789</p>", 900)) }},
	{"JoinWithRaw", func() templ.Component {
		return templ.Join(templ.Raw("<b>a</b>"), fx.TextInControl("t", []string{"x"}), templ.Raw("<b>z</b>"))
	}},
	{"JoinOfScripts", func() templ.Component {
		return templ.Join(fx.EScript(0, 1, "x"), fx.EScript(1, 1, "y"), fx.EScript(2, 3, "z"))
	}},
	{"OnceWithComponent", func() templ.Component { return fx.EFixed() }},
	{"FlushAroundRaw", func() templ.Component { return fx.WrapFlush(templ.Raw("<p>flushed</p>")) }},
	{"JSONScript", func() templ.Component { return templ.JSONScript("data", map[string]any{"a": "</script>", "n": 1}) }},
	{"JSFuncCall", func() templ.Component { return templ.JSFuncCall("console.log", "it's", 2) }},
	{"Nop", func() templ.Component { return templ.NopComponent }},
	// a once handle that is a fresh zero value (not made by NewOnceHandle), used three times in the
	// document: when the component value is shared, all goroutines make its first use together
	{"FreshZeroOnce", func() templ.Component {
		h := new(templ.OnceHandle)
		inner := templ.Raw("<i>once</i>")
		one := templ.ComponentFunc(func(ctx context.Context, w io.Writer) error {
			return h.Once().Render(templ.WithChildren(ctx, inner), w)
		})
		return fx.WrapGen(templ.Join(one, templ.Raw("<hr>"), one, one))
	}},
}

var errW = errors.New("writer failed deliberately")

type planWriter struct {
	buf    bytes.Buffer
	r      Render
	failed bool
}

func (w *planWriter) Write(p []byte) (int, error) {
	if w.failed {
		return 0, errW
	}
	total := 0
	for len(p) > 0 {
		n := len(p)
		if w.r.Chunked > 0 && n > w.r.Chunked {
			n = w.r.Chunked
		}
		if w.r.FailAt >= 0 && w.buf.Len()+n > w.r.FailAt {
			k := w.r.FailAt - w.buf.Len()
			w.buf.Write(p[:k])
			w.failed = true
			return total + k, errW
		}
		w.buf.Write(p[:n])
		total += n
		p = p[n:]
		if w.r.Yield > 0 && w.buf.Len()%w.r.Yield < n {
			runtime.Gosched()
		}
	}
	return total, nil
}

var (
	refOnce sync.Once
	refs    [][]byte
)

func references() [][]byte {
	refOnce.Do(func() {
		for _, c := range table {
			var buf bytes.Buffer
			if err := c.mk().Render(context.Background(), &buf); err != nil {
				panic(fmt.Sprintf("fixture %s: %v", c.name, err))
			}
			refs = append(refs, buf.Bytes())
		}
	})
	return refs
}

func decide(p Plan) error {
	ref := references()
	if p.Procs > 0 {
		defer runtime.GOMAXPROCS(runtime.GOMAXPROCS(p.Procs))
	}
	if p.EmptyPools {
		runtime.GC()
		runtime.GC()
	}
	shared := make([]templ.Component, len(table))
	for i, c := range table {
		shared[i] = c.mk()
	}
	render := func(c templ.Component, w io.Writer) error { return c.Render(context.Background(), w) }
	if p.Middleware {
		next := http.HandlerFunc(func(_ http.ResponseWriter, r *http.Request) {
			r.Context().Value(renderJobKey{}).(func(context.Context))(r.Context())
		})
		mw := templ.NewCSSMiddleware(next, fx.ECSS(2, 999))
		render = func(c templ.Component, w io.Writer) (err error) {
			job := func(ctx context.Context) { err = c.Render(ctx, w) }
			req := httptest.NewRequest("GET", "/page", nil)
			mw.ServeHTTP(httptest.NewRecorder(), req.WithContext(context.WithValue(req.Context(), renderJobKey{}, job)))
			return err
		}
	}
	if p.ViaHandler {
		render = func(c templ.Component, w io.Writer) error {
			comp := c
			if pw, ok := w.(*planWriter); ok && pw.r.FailAt >= 0 {
				comp = failAfter(c, pw.r.FailAt)
			}
			rec := httptest.NewRecorder()
			templ.Handler(comp).ServeHTTP(rec, httptest.NewRequest("GET", "/page", nil))
			if rec.Code != http.StatusOK {
				return errW // the request failed: nothing of the document may be used
			}
			_, err := w.Write(rec.Body.Bytes())
			return err
		}
	}
	errs := make([]error, len(p.Goroutines))
	var wg sync.WaitGroup
	start := make(chan struct{})
	for gi, rs := range p.Goroutines {
		wg.Add(1)
		go func(gi int, rs []Render) {
			defer wg.Done()
			defer func() {
				if x := recover(); x != nil {
					errs[gi] = fmt.Errorf("goroutine %d: panic: %v", gi, x)
				}
			}()
			<-start
			var sink bytes.Buffer
			bw := bufio.NewWriter(&sink)
			for ri, r := range rs {
				c := shared[r.Comp%len(table)]
				if !p.SharedCtx {
					c = table[r.Comp%len(table)].mk()
				}
				want := ref[r.Comp%len(table)]
				name := table[r.Comp%len(table)].name
				if r.Bufio {
					before := sink.Len()
					err := render(c, bw)
					if err == nil {
						err = bw.Flush()
					}
					if err != nil {
						errs[gi] = fmt.Errorf("goroutine %d render %d (%s) into its own bufio.Writer: %v", gi, ri, name, err)
						return
					}
					if got := sink.Bytes()[before:]; !bytes.Equal(got, want) {
						errs[gi] = fmt.Errorf("goroutine %d render %d (%s): its own bufio.Writer received %q, alone the document is %q", gi, ri, name, clip(got), clip(want))
						return
					}
					continue
				}
				w := &planWriter{r: r}
				err := render(c, w)
				switch {
				case r.FailAt >= 0 && r.FailAt < len(want):
					if err == nil || !errors.Is(err, errW) {
						errs[gi] = fmt.Errorf("goroutine %d render %d (%s): writer failed at byte %d but err=%v", gi, ri, name, r.FailAt, err)
						return
					}
					if !bytes.HasPrefix(want, w.buf.Bytes()) {
						errs[gi] = fmt.Errorf("goroutine %d render %d (%s): failed render wrote %q, not a prefix of its document", gi, ri, name, clip(w.buf.Bytes()))
						return
					}
				default:
					if err != nil {
						errs[gi] = fmt.Errorf("goroutine %d render %d (%s): %v", gi, ri, name, err)
						return
					}
					if !bytes.Equal(w.buf.Bytes(), want) {
						errs[gi] = fmt.Errorf("goroutine %d render %d (%s): concurrent render gave %q, alone it gives %q", gi, ri, name, clip(w.buf.Bytes()), clip(want))
						return
					}
				}
			}
		}(gi, rs)
	}
	close(start)
	wg.Wait()
	if r := ev.RaceCheck(); r != "" {
		return fmt.Errorf("the race detector reported a data race while this plan ran:\n%s", r)
	}
	for _, e := range errs {
		if e != nil {
			return e
		}
	}
	return nil
}

func clip(b []byte) string {
	if len(b) > 200 {
		return fmt.Sprintf("%s...(%d bytes)", b[:200], len(b))
	}
	return string(b)
}

func init() {
	ev.RegisterReplay("c14.concurrent", func(raw json.RawMessage) error {
		var p Plan
		if err := json.Unmarshal(raw, &p); err != nil {
			return err
		}
		for i := 0; i < 50; i++ {
			if err := decide(p); err != nil {
				return err
			}
		}
		return nil
	})
}

var genRender = rapid.Custom(func(t *rapid.T) Render {
	r := Render{Comp: rapid.IntRange(0, len(table)-1).Draw(t, "comp"), FailAt: -1}
	switch rapid.IntRange(0, 5).Draw(t, "writer") {
	case 0:
		r.Yield = rapid.SampledFrom([]int{1, 7, 64, 1000}).Draw(t, "yield")
	case 1:
		r.FailAt = rapid.SampledFrom([]int{0, 1, 10, 100, 1000, 4095, 4096, 4097, 9000}).Draw(t, "failAt")
	case 2:
		r.Chunked = rapid.SampledFrom([]int{1, 3, 100}).Draw(t, "chunk")
		r.Yield = 16
	case 3:
		r.FailAt = rapid.IntRange(0, 6000).Draw(t, "failAtAny")
		r.Yield = 32
	case 4:
		r.Bufio = true
	}
	return r
})

func nontrivial(p Plan) bool {
	perComp := map[int]map[int]bool{}
	failing := map[int]bool{}
	for gi, rs := range p.Goroutines {
		for _, r := range rs {
			c := r.Comp % len(table)
			if perComp[c] == nil {
				perComp[c] = map[int]bool{}
			}
			perComp[c][gi] = true
			if r.FailAt >= 0 {
				failing[c] = true
			}
		}
	}
	for c, gs := range perComp {
		if len(gs) >= 2 && failing[c] {
			return true
		}
	}
	return false
}

func TestPropConcurrent(t *testing.T) {
	rapid.Check(t, func(t *rapid.T) {
		p := Plan{
			Goroutines: rapid.SliceOfN(rapid.SliceOfN(genRender, 1, 6), 2, 16).Draw(t, "goroutines"),
			Procs:      rapid.SampledFrom([]int{1, 2, 16, 16}).Draw(t, "procs"),
			SharedCtx:  rapid.Bool().Draw(t, "sharedValues"),
			EmptyPools: rapid.Bool().Draw(t, "emptyPools"),
			Middleware: rapid.IntRange(0, 3).Draw(t, "middleware") == 0,
			ViaHandler: rapid.IntRange(0, 3).Draw(t, "viaHandler") == 0,
		}
		rec.Eval(1)
		if nontrivial(p) {
			rec.NonTrivial(fmt.Sprint(p), func() any { return p })
		}
		if err := decide(p); err != nil {
			rec.Fail(t, p, "%v", err)
		}
	})
}

func TestReplay(t *testing.T) {
	for _, r := range ev.RunReplays() {
		t.Logf("%+v", r)
	}
}
