// Package watchbuild builds tgen programs the way `templ generate --watch` does: each .templ file
// goes through generatecmd's FSEventHandler in development mode, which writes the _templ.go file
// and the development text file (into TEMPL_DEV_MODE_ROOT); the directory is then compiled into the
// tgen runner binary, which can be run with and without TEMPL_DEV_MODE=true.
package watchbuild

import (
	"context"
	"errors"
	"fmt"
	"io"
	"log/slog"
	"os"
	"os/exec"
	"path/filepath"
	"strings"
	"time"

	"github.com/a-h/templ/cmd/templ/generatecmd"
	templruntime "github.com/a-h/templ/runtime"
	"github.com/fsnotify/fsnotify"

	"verif/batch"
	"verif/tgen"
)

type Project struct {
	Dir     string
	TxtRoot string
	Handler *generatecmd.FSEventHandler
	clock   time.Time
	Bin     string
	// FailWrites: that many of the handler's next file writes fail.
	FailWrites int
}

var discard = slog.New(slog.NewTextHandler(io.Discard, nil))

func repoDir() string {
	if r := os.Getenv("VERIF_REPO"); r != "" {
		return r
	}
	return "/repo"
}

// New creates an empty project directory with go.mod, helpers and runner.
func New(nRoots int) (*Project, error) {
	dir := batch.Dir()
	p := &Project{Dir: dir, TxtRoot: filepath.Join(dir, "devtxt"), clock: time.Date(2024, 5, 1, 0, 0, 0, 0, time.UTC)}
	if err := os.MkdirAll(p.TxtRoot, 0o755); err != nil {
		return nil, err
	}
	// The handler (running in this process) and the compiled program (a child) must agree on
	// where the text files are.
	os.Setenv("TEMPL_DEV_MODE_ROOT", p.TxtRoot)
	mod := "module batchprog\n\ngo 1.23.0\n\nrequire github.com/a-h/templ v0.0.0\n\nreplace github.com/a-h/templ => " + repoDir() + "\n"
	files := map[string]string{"go.mod": mod, "helpers.go": tgen.HelpersSource, "runner.go": tgen.RunnerSource}
	var roots strings.Builder
	roots.WriteString("package main\n\nimport \"github.com/a-h/templ\"\n\nvar roots = []func(s1, s2 string, b1, b2 bool, n int, xs []string, fail bool, c templ.Component) templ.Component{\n")
	for i := 0; i < nRoots; i++ {
		fmt.Fprintf(&roots, "\tP%dT0,\n", i)
	}
	roots.WriteString("}\n")
	files["roots.go"] = roots.String()
	for name, src := range files {
		if err := os.WriteFile(filepath.Join(dir, name), []byte(src), 0o644); err != nil {
			return nil, err
		}
	}
	if sum, err := os.ReadFile(filepath.Join(repoDir(), "go.sum")); err == nil {
		_ = os.WriteFile(filepath.Join(dir, "go.sum"), sum, 0o644)
	}
	p.Handler = generatecmd.NewFSEventHandler(discard, dir, true, nil, false, false, func(name string, contents []byte) error {
		if p.FailWrites > 0 {
			// a full disk, a file locked by another tool: the save cannot be completed
			p.FailWrites--
			return errors.New("write fault injected by the harness: " + filepath.Base(name))
		}
		return generatecmd.FileWriter(name, contents)
	}, false)
	return p, nil
}

func (p *Project) Close() { os.RemoveAll(p.Dir) }

// Put writes program i (file p<i>.templ) with a modification time later than every earlier write
// and passes the event to the handler, as the watcher would.
func (p *Project) Put(i int, src string) (generatecmd.GenerateResult, error) {
	name := filepath.Join(p.Dir, fmt.Sprintf("p%d.templ", i))
	if err := os.WriteFile(name, []byte(src), 0o644); err != nil {
		return generatecmd.GenerateResult{}, err
	}
	p.clock = p.clock.Add(2 * time.Second)
	if err := os.Chtimes(name, p.clock, p.clock); err != nil {
		return generatecmd.GenerateResult{}, err
	}
	return p.Handler.HandleEvent(context.Background(), fsnotify.Event{Name: name, Op: fsnotify.Write})
}

// GoFile returns the generated Go of program i as it is on disk.
func (p *Project) GoFile(i int) string {
	b, _ := os.ReadFile(filepath.Join(p.Dir, fmt.Sprintf("p%d_templ.go", i)))
	return string(b)
}

// TxtFile returns the development text file of program i as it is on disk (the file the compiled
// program reads its static text from in development mode).
func (p *Project) TxtFile(i int) (string, error) {
	b, err := os.ReadFile(templruntime.GetDevModeTextFileName(filepath.Join(p.Dir, fmt.Sprintf("p%d.templ", i))))
	return string(b), err
}

// Build compiles the directory.
func (p *Project) Build(race bool) error {
	args := []string{"build", "-o", "prog"}
	if race {
		args = append(args, "-race")
	}
	args = append(args, ".")
	cmd := exec.Command("go", args...)
	cmd.Dir = p.Dir
	cmd.Env = append(os.Environ(), "GOFLAGS=-mod=mod", "GOPROXY=off", "GOSUMDB=off", "GOTOOLCHAIN=local")
	out, err := cmd.CombinedOutput()
	if err != nil {
		return &batch.BuildError{Output: string(out)}
	}
	p.Bin = filepath.Join(p.Dir, "prog")
	return nil
}

// DevEnv is the environment that switches the compiled program to development mode.
func (p *Project) DevEnv() []string {
	return []string{"TEMPL_DEV_MODE=true", "TEMPL_DEV_MODE_ROOT=" + p.TxtRoot}
}
