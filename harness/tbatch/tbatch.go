// Package tbatch compiles tgen programs into one runner binary and feeds it jobs.
package tbatch

import (
	"encoding/base64"
	"encoding/json"
	"fmt"
	"os"
	"strings"
	"time"

	"verif/batch"
	"verif/tgen"
)

type Job struct {
	K             int       `json:"k"`
	Args          tgen.Args `json:"args"`
	WriterFailAt  int       `json:"writer_fail_at"`
	Zero          bool      `json:"zero,omitempty"`
	Cancelled     bool      `json:"cancelled,omitempty"`
	CompFailAfter int       `json:"comp_fail_after"`
	Bufio         int       `json:"bufio,omitempty"` // 1..3: render into the runner's long-lived bufio.Writer number Bufio
	GC            bool      `json:"gc,omitempty"`    // empty the sync.Pools first
	ToGoHTML      bool      `json:"to_go_html,omitempty"`
	B64           bool      `json:"b64,omitempty"`     // Args.S1, S2, XS are base64 (byte-exact transport)
	Overlap       bool      `json:"overlap,omitempty"` // two renders of the program overlap on one processor (see the runner)
	// RuntimeBuf: Render is handed a buffer the caller took from templ's runtime (GetBuffer) around
	// the destination, released after the render.
	RuntimeBuf bool `json:"runtime_buf,omitempty"`
}

// Bytes returns a job without faults whose string arguments reach the program byte for byte
// (invalid UTF-8, NUL and CR included).
func Bytes(k int, a tgen.Args) Job {
	enc := func(s string) string { return base64.StdEncoding.EncodeToString([]byte(s)) }
	b := a
	b.S1, b.S2 = enc(a.S1), enc(a.S2)
	b.XS = nil
	for _, x := range a.XS {
		b.XS = append(b.XS, enc(x))
	}
	j := Plain(k, b)
	j.B64 = true
	return j
}

// Plain returns a job without faults.
func Plain(k int, a tgen.Args) Job { return Job{K: k, Args: a, WriterFailAt: -1, CompFailAfter: -1} }

type Result struct {
	Out           []byte   `json:"out"`
	Out2          []byte   `json:"out2,omitempty"`
	Ref1          []byte   `json:"ref1,omitempty"`
	Ref2          []byte   `json:"ref2,omitempty"`
	Err           string   `json:"err"`
	Boom          bool     `json:"boom"`
	WriterErr     bool     `json:"writer_err"`
	CompErr       bool     `json:"comp_err"`
	Canceled      bool     `json:"canceled"`
	Trace         []string `json:"trace"`
	ErrFile       string   `json:"err_file"`
	ErrLine       int      `json:"err_line"`
	HasTemplError bool     `json:"has_templ_error"`
	Writes        int      `json:"writes"`
}

// Binary is a compiled batch.
type Binary struct {
	Dir  string
	Path string
	// Sources and Records of the printed programs, by index.
	Sources []string
	Records [][]tgen.Record
}

func (b *Binary) Close() { os.RemoveAll(b.Dir) }

// Build prints, generates (with /repo's generator) and compiles the programs. File i is named
// p<i>.templ and its templates carry the prefix P<i>.
func Build(files []*tgen.File, opt batch.Options) (*Binary, error) {
	dir := batch.Dir()
	b := &Binary{Dir: dir}
	srcs := map[string]string{"helpers.go": tgen.HelpersSource, "runner.go": tgen.RunnerSource}
	var roots strings.Builder
	roots.WriteString("package main\n\nimport \"github.com/a-h/templ\"\n\nvar roots = []func(s1, s2 string, b1, b2 bool, n int, xs []string, fail bool, c templ.Component) templ.Component{\n")
	for i, f := range files {
		prefix := fmt.Sprintf("P%d", i)
		src, recs := tgen.Print(f, prefix)
		b.Sources = append(b.Sources, src)
		b.Records = append(b.Records, recs)
		srcs[fmt.Sprintf("p%d.templ", i)] = src
		fmt.Fprintf(&roots, "\t%sT0,\n", prefix)
	}
	roots.WriteString("}\n")
	srcs["roots.go"] = roots.String()
	path, err := batch.Build(dir, srcs, opt)
	if err != nil {
		os.RemoveAll(dir)
		return nil, err
	}
	b.Path = path
	return b, nil
}

// Run feeds the jobs to the binary (one process, sequentially) and returns one result per job.
func (b *Binary) Run(jobs []Job, env []string, timeout time.Duration) ([]Result, error) {
	var stdin strings.Builder
	enc := json.NewEncoder(&stdin)
	for _, j := range jobs {
		_ = enc.Encode(j)
	}
	out, stderr, err := batch.Run(b.Path, []byte(stdin.String()), env, timeout)
	if err != nil {
		return nil, fmt.Errorf("run: %v: %s", err, clip(string(stderr)))
	}
	var res []Result
	dec := json.NewDecoder(strings.NewReader(string(out)))
	for dec.More() {
		var r Result
		if err := dec.Decode(&r); err != nil {
			return nil, err
		}
		res = append(res, r)
	}
	if len(res) != len(jobs) {
		return nil, fmt.Errorf("%d results for %d jobs: %s", len(res), len(jobs), clip(string(stderr)))
	}
	return res, nil
}

func clip(s string) string {
	if len(s) > 3000 {
		return s[:3000] + "..."
	}
	return s
}
