// Package gonorm reduces Go source to a token stream for "is this the same program" comparisons:
// comments and automatically inserted semicolons are dropped, and the source positions embedded in
// templ.Error literals (Line: / Col:) are masked. Optionally the string literal handed to
// templruntime.WriteString is masked too (development-mode text).
package gonorm

import (
	"fmt"
	"go/scanner"
	"go/token"
)

type Tok struct {
	Kind token.Token
	Lit  string
}

func (t Tok) String() string {
	if t.Lit != "" {
		return t.Lit
	}
	return t.Kind.String()
}

// Tokens scans src. maskWriteString masks the third argument of templruntime.WriteString(.
func Tokens(src string, maskWriteString bool) ([]Tok, error) {
	fset := token.NewFileSet()
	file := fset.AddFile("x.go", fset.Base(), len(src))
	var s scanner.Scanner
	var firstErr error
	s.Init(file, []byte(src), func(pos token.Position, msg string) {
		if firstErr == nil {
			firstErr = fmt.Errorf("%v: %s", pos, msg)
		}
	}, 0)
	var out []Tok
	for {
		_, tok, lit := s.Scan()
		if tok == token.EOF {
			break
		}
		if tok == token.SEMICOLON && lit == "\n" {
			continue
		}
		if tok == token.SEMICOLON {
			continue // explicit and implicit semicolons are layout
		}
		if !tok.IsLiteral() && tok != token.IDENT {
			lit = ""
		}
		out = append(out, Tok{tok, lit})
	}
	if firstErr != nil {
		return nil, firstErr
	}
	// a trailing comma before a closing bracket is layout (gofmt requires it when the bracket is on
	// its own line and it means nothing)
	kept := out[:0]
	for i, t := range out {
		if t.Kind == token.COMMA && i+1 < len(out) {
			switch out[i+1].Kind {
			case token.RBRACE, token.RPAREN, token.RBRACK:
				continue
			}
		}
		kept = append(kept, t)
	}
	out = kept
	// a grouped import declaration means the same as one declaration per import:
	// import ( "a"; x "b" )  ==  import "a"; import x "b"
	var flat []Tok
	for i := 0; i < len(out); i++ {
		if out[i].Kind == token.IMPORT && i+1 < len(out) && out[i+1].Kind == token.LPAREN {
			j := i + 2
			for j < len(out) && out[j].Kind != token.RPAREN {
				flat = append(flat, Tok{Kind: token.IMPORT})
				for j < len(out) && out[j].Kind != token.STRING && out[j].Kind != token.RPAREN {
					flat = append(flat, out[j]) // the import's name: an identifier, "." or "_"
					j++
				}
				if j < len(out) && out[j].Kind == token.STRING {
					flat = append(flat, out[j])
					j++
				}
			}
			i = j // the closing parenthesis
			continue
		}
		flat = append(flat, out[i])
	}
	out = flat
	// mask Line: N / Col: N inside templ.Error{...}
	for i := 0; i+2 < len(out); i++ {
		if out[i].Kind == token.IDENT && (out[i].Lit == "Line" || out[i].Lit == "Col") && out[i+1].Kind == token.COLON && out[i+2].Kind == token.INT {
			// look back for "Error {" within a short window
			for j := i - 1; j >= 0 && j > i-24; j-- {
				if out[j].Kind == token.IDENT && out[j].Lit == "Error" && j+1 < len(out) && out[j+1].Kind == token.LBRACE {
					out[i+2].Lit = "#"
					break
				}
			}
		}
	}
	if maskWriteString {
		for i := 0; i+7 < len(out); i++ {
			// templruntime . WriteString ( buf , N , "lit" )
			if out[i].Lit == "templruntime" && out[i+1].Kind == token.PERIOD && out[i+2].Lit == "WriteString" && out[i+3].Kind == token.LPAREN {
				depth := 0
				args := 0
				for j := i + 4; j < len(out); j++ {
					switch out[j].Kind {
					case token.LPAREN, token.LBRACK, token.LBRACE:
						depth++
					case token.RPAREN, token.RBRACK, token.RBRACE:
						depth--
					case token.COMMA:
						if depth == 0 {
							args++
						}
					case token.STRING:
						if depth == 0 && args == 2 {
							out[j].Lit = "\"#\""
						}
					}
					if depth < 0 {
						break
					}
				}
			}
		}
	}
	return out, nil
}

// Diff returns "" if the streams are equal, otherwise a description of the first difference.
func Diff(a, b []Tok) string {
	n := min(len(a), len(b))
	for i := 0; i < n; i++ {
		if a[i] != b[i] {
			lo := max(0, i-6)
			return fmt.Sprintf("token %d: %v vs %v (context: %v | %v)", i, a[i], b[i], a[lo:min(len(a), i+4)], b[lo:min(len(b), i+4)])
		}
	}
	if len(a) != len(b) {
		return fmt.Sprintf("%d tokens vs %d tokens", len(a), len(b))
	}
	return ""
}
