// Package urlscheme extracts the scheme a browser would see in a URL string, following the WHATWG
// URL standard's basic URL parser as far as the "scheme start state" and "scheme state". It shares
// no code with templ.
package urlscheme

import "strings"

// Scheme returns the lower-cased scheme and true when the URL parser would find one, or "", false
// when the string would be resolved as a relative reference (or fail to parse without a base,
// which executes nothing either).
func Scheme(s string) (string, bool) {
	// 1. Remove any leading and trailing C0 control or space.
	start, end := 0, len(s)
	for start < end && s[start] <= 0x20 {
		start++
	}
	for end > start && s[end-1] <= 0x20 {
		end--
	}
	s = s[start:end]
	// 2. Remove all ASCII tab or newline.
	if strings.ContainsAny(s, "\t\n\r") {
		s = strings.NewReplacer("\t", "", "\n", "", "\r", "").Replace(s)
	}
	// 3. scheme start state: first code point must be ASCII alpha.
	if len(s) == 0 || !isAlpha(s[0]) {
		return "", false
	}
	// 4. scheme state: ASCII alphanumeric, '+', '-', '.' until ':'.
	i := 1
	for i < len(s) {
		c := s[i]
		if isAlpha(c) || (c >= '0' && c <= '9') || c == '+' || c == '-' || c == '.' {
			i++
			continue
		}
		break
	}
	if i < len(s) && s[i] == ':' {
		return strings.ToLower(s[:i]), true
	}
	return "", false
}

func isAlpha(c byte) bool { return (c >= 'a' && c <= 'z') || (c >= 'A' && c <= 'Z') }

// Accept reports whether the URL has no scheme or one of the allowed ones.
func Accept(s string, allowed ...string) bool {
	sc, ok := Scheme(s)
	if !ok {
		return true
	}
	for _, a := range allowed {
		if sc == a {
			return true
		}
	}
	return false
}
