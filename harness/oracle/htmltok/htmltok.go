// Package htmltok turns rendered bytes into the token sequence an HTML5 tokenizer sees, using
// golang.org/x/net/html's Tokenizer (not the tree builder). Attribute values and text are
// entity-decoded; CR and CRLF are normalised to LF by the tokenizer (HTML input preprocessing).
package htmltok

import (
	"bytes"
	"fmt"
	"strings"

	"golang.org/x/net/html"
)

type Attr struct {
	Name string `json:"n"`
	Val  string `json:"v"`
}

type Tok struct {
	Type  string `json:"t"` // start, end, selfclosing, text, comment, doctype
	Name  string `json:"name,omitempty"`
	Attrs []Attr `json:"attrs,omitempty"`
	Data  string `json:"data,omitempty"` // text / comment / doctype content
	Raw   string `json:"-"`
}

func (t Tok) String() string {
	switch t.Type {
	case "start", "selfclosing":
		var sb strings.Builder
		sb.WriteString("<" + t.Name)
		for _, a := range t.Attrs {
			fmt.Fprintf(&sb, " %s=%q", a.Name, a.Val)
		}
		if t.Type == "selfclosing" {
			sb.WriteString("/")
		}
		sb.WriteString(">")
		return sb.String()
	case "end":
		return "</" + t.Name + ">"
	case "text":
		return fmt.Sprintf("text(%q)", t.Data)
	case "comment":
		return fmt.Sprintf("comment(%q)", t.Data)
	default:
		return fmt.Sprintf("%s(%q)", t.Type, t.Data)
	}
}

// Tokens tokenizes b. Adjacent text tokens are merged. An error (other than EOF) is returned as is.
func Tokens(b []byte) ([]Tok, error) {
	z := html.NewTokenizer(bytes.NewReader(b))
	z.SetMaxBuf(0)
	var out []Tok
	for {
		tt := z.Next()
		if tt == html.ErrorToken {
			if err := z.Err(); err != nil && err.Error() != "EOF" {
				return out, err
			}
			return out, nil
		}
		raw := string(z.Raw())
		tok := z.Token()
		var t Tok
		t.Raw = raw
		switch tt {
		case html.StartTagToken, html.SelfClosingTagToken:
			t.Type = "start"
			if tt == html.SelfClosingTagToken {
				t.Type = "selfclosing"
			}
			t.Name = tok.Data
			for _, a := range tok.Attr {
				t.Attrs = append(t.Attrs, Attr{Name: a.Key, Val: a.Val})
			}
		case html.EndTagToken:
			t.Type = "end"
			t.Name = tok.Data
		case html.TextToken:
			t.Type = "text"
			t.Data = tok.Data
			if n := len(out); n > 0 && out[n-1].Type == "text" {
				out[n-1].Data += t.Data
				out[n-1].Raw += raw
				continue
			}
		case html.CommentToken:
			t.Type = "comment"
			t.Data = tok.Data
		case html.DoctypeToken:
			t.Type = "doctype"
			t.Data = tok.Data
		}
		out = append(out, t)
	}
}

// NormNewlines applies the tokenizer's newline normalisation (CRLF and CR become LF) to an
// expected value.
func NormNewlines(s string) string {
	if !strings.Contains(s, "\r") {
		return s
	}
	s = strings.ReplaceAll(s, "\r\n", "\n")
	return strings.ReplaceAll(s, "\r", "\n")
}

// SameShape compares two token sequences ignoring attribute values and text/comment data:
// same token types, tag names, attribute names in the same order.
func SameShape(a, b []Tok) error {
	if len(a) != len(b) {
		return fmt.Errorf("token count %d vs %d", len(a), len(b))
	}
	for i := range a {
		if a[i].Type != b[i].Type || a[i].Name != b[i].Name {
			return fmt.Errorf("token %d: %s vs %s", i, a[i], b[i])
		}
		if len(a[i].Attrs) != len(b[i].Attrs) {
			return fmt.Errorf("token %d: attributes %s vs %s", i, a[i], b[i])
		}
		for j := range a[i].Attrs {
			if a[i].Attrs[j].Name != b[i].Attrs[j].Name {
				return fmt.Errorf("token %d: attribute %d: %s vs %s", i, j, a[i], b[i])
			}
		}
	}
	return nil
}

// Canon renders the token sequence of a document in the canonical form tgen's reference
// interpreter uses: markup tokens wrapped in \x00 ... \x01 with decoded, quoted attribute values,
// text as its decoded characters.
func Canon(out []byte) (string, error) {
	toks, err := Tokens(out)
	if err != nil {
		return "", err
	}
	var sb strings.Builder
	for _, t := range toks {
		switch t.Type {
		case "start", "selfclosing":
			sb.WriteString("\x00<" + t.Name)
			for _, a := range t.Attrs {
				fmt.Fprintf(&sb, " %s=%q", a.Name, a.Val)
			}
			if t.Type == "selfclosing" {
				sb.WriteString("/")
			}
			sb.WriteString(">\x01")
		case "end":
			sb.WriteString("\x00</" + t.Name + ">\x01")
		case "comment":
			sb.WriteString("\x00<!--" + t.Data + "-->\x01")
		case "doctype":
			sb.WriteString("\x00<!doctype " + t.Data + ">\x01")
		case "text":
			sb.WriteString(t.Data)
		}
	}
	return sb.String(), nil
}
