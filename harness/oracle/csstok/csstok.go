// Package csstok is an independent implementation of the CSS Syntax Module Level 3 tokenizer (§4)
// and of the parts of the parser (§5) needed to decide what a browser makes of a rule list or a
// declaration list. It shares no code with templ or its sanitiser.
package csstok

import (
	"strings"
	"unicode/utf8"
)

type Kind int

const (
	Ident Kind = iota
	Function
	AtKeyword
	Hash
	String
	BadString
	URL
	BadURL
	Delim
	Number
	Percentage
	Dimension
	Whitespace
	CDO
	CDC
	Colon
	Semicolon
	Comma
	LBracket
	RBracket
	LParen
	RParen
	LBrace
	RBrace
	Comment
	EOF
)

var kindNames = [...]string{"ident", "function", "at-keyword", "hash", "string", "bad-string", "url", "bad-url", "delim", "number",
	"percentage", "dimension", "whitespace", "CDO", "CDC", "colon", "semicolon", "comma", "[", "]", "(", ")", "{", "}", "comment", "EOF"}

func (k Kind) String() string { return kindNames[k] }

type Token struct {
	Kind  Kind
	Value string // ident/function/at-keyword/hash name, string/url contents, delim rune
	Raw   string
}

type tokenizer struct {
	s   []rune
	pos int
}

// preprocess implements §3.3: CR, FF and CRLF become LF; NUL and surrogates become U+FFFD.
// Invalid UTF-8 bytes decode to U+FFFD as a decoder would.
func preprocess(in string) []rune {
	out := make([]rune, 0, len(in))
	for i := 0; i < len(in); {
		r, w := utf8.DecodeRuneInString(in[i:])
		i += w
		switch {
		case r == '\r':
			if i < len(in) && in[i] == '\n' {
				i++
			}
			out = append(out, '\n')
		case r == '\f':
			out = append(out, '\n')
		case r == 0:
			out = append(out, 0xFFFD)
		default:
			out = append(out, r)
		}
	}
	return out
}

// Tokenize returns all tokens of s, comments included (as Comment tokens).
func Tokenize(s string) []Token {
	z := &tokenizer{s: preprocess(s)}
	var out []Token
	for {
		start := z.pos
		t := z.next()
		t.Raw = string(z.s[start:z.pos])
		if t.Kind == EOF {
			return out
		}
		out = append(out, t)
	}
}

func (z *tokenizer) peek(n int) rune {
	if z.pos+n < len(z.s) {
		return z.s[z.pos+n]
	}
	return -1
}

func isNameStart(r rune) bool {
	return (r >= 'a' && r <= 'z') || (r >= 'A' && r <= 'Z') || r == '_' || r >= 0x80
}
func isDigit(r rune) bool { return r >= '0' && r <= '9' }
func isName(r rune) bool  { return isNameStart(r) || isDigit(r) || r == '-' }
func isHex(r rune) bool {
	return isDigit(r) || (r >= 'a' && r <= 'f') || (r >= 'A' && r <= 'F')
}
func isWS(r rune) bool { return r == '\n' || r == '\t' || r == ' ' }
func isNonPrintable(r rune) bool {
	return (r >= 0 && r <= 8) || r == 0xb || (r >= 0xe && r <= 0x1f) || r == 0x7f
}

func validEscape(a, b rune) bool { return a == '\\' && b != '\n' && b != -1 }

func (z *tokenizer) startsIdent(a, b, c rune) bool {
	switch {
	case a == '-':
		return isNameStart(b) || b == '-' || validEscape(b, c)
	case isNameStart(a):
		return true
	case a == '\\':
		return validEscape(a, b)
	}
	return false
}

func startsNumber(a, b, c rune) bool {
	switch {
	case a == '+' || a == '-':
		if isDigit(b) {
			return true
		}
		return b == '.' && isDigit(c)
	case a == '.':
		return isDigit(b)
	}
	return isDigit(a)
}

func (z *tokenizer) next() Token {
	// comments
	if z.peek(0) == '/' && z.peek(1) == '*' {
		z.pos += 2
		for z.pos < len(z.s) {
			if z.peek(0) == '*' && z.peek(1) == '/' {
				z.pos += 2
				return Token{Kind: Comment}
			}
			z.pos++
		}
		return Token{Kind: Comment}
	}
	r := z.peek(0)
	if r == -1 {
		return Token{Kind: EOF}
	}
	switch {
	case isWS(r):
		for isWS(z.peek(0)) {
			z.pos++
		}
		return Token{Kind: Whitespace}
	case r == '"' || r == '\'':
		z.pos++
		return z.consumeString(r)
	case r == '#':
		z.pos++
		if isName(z.peek(0)) || validEscape(z.peek(0), z.peek(1)) {
			return Token{Kind: Hash, Value: z.consumeName()}
		}
		return Token{Kind: Delim, Value: "#"}
	case r == '(':
		z.pos++
		return Token{Kind: LParen}
	case r == ')':
		z.pos++
		return Token{Kind: RParen}
	case r == '+' || r == '.':
		if startsNumber(r, z.peek(1), z.peek(2)) {
			return z.consumeNumeric()
		}
		z.pos++
		return Token{Kind: Delim, Value: string(r)}
	case r == ',':
		z.pos++
		return Token{Kind: Comma}
	case r == '-':
		if startsNumber(r, z.peek(1), z.peek(2)) {
			return z.consumeNumeric()
		}
		if z.peek(1) == '-' && z.peek(2) == '>' {
			z.pos += 3
			return Token{Kind: CDC}
		}
		if z.startsIdent(r, z.peek(1), z.peek(2)) {
			return z.consumeIdentLike()
		}
		z.pos++
		return Token{Kind: Delim, Value: "-"}
	case r == ':':
		z.pos++
		return Token{Kind: Colon}
	case r == ';':
		z.pos++
		return Token{Kind: Semicolon}
	case r == '<':
		if z.peek(1) == '!' && z.peek(2) == '-' && z.peek(3) == '-' {
			z.pos += 4
			return Token{Kind: CDO}
		}
		z.pos++
		return Token{Kind: Delim, Value: "<"}
	case r == '@':
		z.pos++
		if z.startsIdent(z.peek(0), z.peek(1), z.peek(2)) {
			return Token{Kind: AtKeyword, Value: z.consumeName()}
		}
		return Token{Kind: Delim, Value: "@"}
	case r == '[':
		z.pos++
		return Token{Kind: LBracket}
	case r == '\\':
		if validEscape(r, z.peek(1)) {
			return z.consumeIdentLike()
		}
		z.pos++
		return Token{Kind: Delim, Value: "\\"}
	case r == ']':
		z.pos++
		return Token{Kind: RBracket}
	case r == '{':
		z.pos++
		return Token{Kind: LBrace}
	case r == '}':
		z.pos++
		return Token{Kind: RBrace}
	case isDigit(r):
		return z.consumeNumeric()
	case isNameStart(r):
		return z.consumeIdentLike()
	}
	z.pos++
	return Token{Kind: Delim, Value: string(r)}
}

func (z *tokenizer) consumeEscape() rune {
	// the backslash has been consumed
	r := z.peek(0)
	if r == -1 {
		return 0xFFFD
	}
	z.pos++
	if isHex(r) {
		v := hexVal(r)
		for i := 0; i < 5 && isHex(z.peek(0)); i++ {
			v = v*16 + hexVal(z.peek(0))
			z.pos++
		}
		if isWS(z.peek(0)) {
			z.pos++
		}
		if v == 0 || (v >= 0xD800 && v <= 0xDFFF) || v > 0x10FFFF {
			return 0xFFFD
		}
		return rune(v)
	}
	return r
}

func hexVal(r rune) int {
	switch {
	case isDigit(r):
		return int(r - '0')
	case r >= 'a' && r <= 'f':
		return int(r-'a') + 10
	default:
		return int(r-'A') + 10
	}
}

func (z *tokenizer) consumeString(end rune) Token {
	var sb strings.Builder
	for {
		r := z.peek(0)
		switch {
		case r == -1:
			return Token{Kind: String, Value: sb.String()} // parse error, but a string token
		case r == end:
			z.pos++
			return Token{Kind: String, Value: sb.String()}
		case r == '\n':
			return Token{Kind: BadString, Value: sb.String()}
		case r == '\\':
			if z.peek(1) == -1 {
				z.pos++
				continue
			}
			if z.peek(1) == '\n' {
				z.pos += 2
				continue
			}
			z.pos++
			sb.WriteRune(z.consumeEscape())
		default:
			z.pos++
			sb.WriteRune(r)
		}
	}
}

func (z *tokenizer) consumeName() string {
	var sb strings.Builder
	for {
		r := z.peek(0)
		switch {
		case isName(r):
			z.pos++
			sb.WriteRune(r)
		case validEscape(r, z.peek(1)):
			z.pos++
			sb.WriteRune(z.consumeEscape())
		default:
			return sb.String()
		}
	}
}

func (z *tokenizer) consumeNumeric() Token {
	start := z.pos
	if r := z.peek(0); r == '+' || r == '-' {
		z.pos++
	}
	for isDigit(z.peek(0)) {
		z.pos++
	}
	if z.peek(0) == '.' && isDigit(z.peek(1)) {
		z.pos += 2
		for isDigit(z.peek(0)) {
			z.pos++
		}
	}
	if e := z.peek(0); e == 'e' || e == 'E' {
		if isDigit(z.peek(1)) || ((z.peek(1) == '+' || z.peek(1) == '-') && isDigit(z.peek(2))) {
			z.pos += 2
			for isDigit(z.peek(0)) {
				z.pos++
			}
		}
	}
	num := string(z.s[start:z.pos])
	if z.startsIdent(z.peek(0), z.peek(1), z.peek(2)) {
		return Token{Kind: Dimension, Value: num + z.consumeName()}
	}
	if z.peek(0) == '%' {
		z.pos++
		return Token{Kind: Percentage, Value: num}
	}
	return Token{Kind: Number, Value: num}
}

func (z *tokenizer) consumeIdentLike() Token {
	name := z.consumeName()
	if strings.EqualFold(name, "url") && z.peek(0) == '(' {
		z.pos++
		// skip whitespace while the next two are whitespace
		for isWS(z.peek(0)) && isWS(z.peek(1)) {
			z.pos++
		}
		a, b := z.peek(0), z.peek(1)
		if a == '"' || a == '\'' || (isWS(a) && (b == '"' || b == '\'')) {
			return Token{Kind: Function, Value: name}
		}
		return z.consumeURL()
	}
	if z.peek(0) == '(' {
		z.pos++
		return Token{Kind: Function, Value: name}
	}
	return Token{Kind: Ident, Value: name}
}

func (z *tokenizer) consumeURL() Token {
	var sb strings.Builder
	for isWS(z.peek(0)) {
		z.pos++
	}
	for {
		r := z.peek(0)
		switch {
		case r == ')':
			z.pos++
			return Token{Kind: URL, Value: sb.String()}
		case r == -1:
			return Token{Kind: URL, Value: sb.String()}
		case isWS(r):
			for isWS(z.peek(0)) {
				z.pos++
			}
			if z.peek(0) == ')' || z.peek(0) == -1 {
				if z.peek(0) == ')' {
					z.pos++
				}
				return Token{Kind: URL, Value: sb.String()}
			}
			z.consumeBadURLRemnants()
			return Token{Kind: BadURL}
		case r == '"' || r == '\'' || r == '(' || isNonPrintable(r):
			z.consumeBadURLRemnants()
			return Token{Kind: BadURL}
		case r == '\\':
			if validEscape(r, z.peek(1)) {
				z.pos++
				sb.WriteRune(z.consumeEscape())
			} else {
				z.consumeBadURLRemnants()
				return Token{Kind: BadURL}
			}
		default:
			z.pos++
			sb.WriteRune(r)
		}
	}
}

func (z *tokenizer) consumeBadURLRemnants() {
	for {
		r := z.peek(0)
		switch {
		case r == ')' || r == -1:
			if r == ')' {
				z.pos++
			}
			return
		case validEscape(r, z.peek(1)):
			z.pos++
			z.consumeEscape()
		default:
			z.pos++
		}
	}
}

// ---------- parser ----------

// Component is a component value: a preserved token, a simple block or a function with its
// contents.
type Component struct {
	Tok      Token
	Block    Kind // LBrace, LBracket, LParen for simple blocks; Function for functions; otherwise 0 with IsBlock false
	IsBlock  bool
	Children []Component
	Closed   bool // the block's end token was present
}

type Rule struct {
	At       bool
	Name     string // at-rule name
	Prelude  []Component
	Block    []Component
	HasBlock bool
}

type parser struct {
	toks []Token
	pos  int
}

func (p *parser) peek() Token {
	if p.pos < len(p.toks) {
		return p.toks[p.pos]
	}
	return Token{Kind: EOF}
}

func closer(k Kind) Kind {
	switch k {
	case LBrace:
		return RBrace
	case LBracket:
		return RBracket
	default:
		return RParen
	}
}

func (p *parser) consumeComponent() Component {
	t := p.peek()
	p.pos++
	switch t.Kind {
	case LBrace, LBracket, LParen, Function:
		c := Component{Tok: t, Block: t.Kind, IsBlock: true}
		end := closer(t.Kind)
		for {
			n := p.peek()
			if n.Kind == EOF {
				return c
			}
			if n.Kind == end {
				p.pos++
				c.Closed = true
				return c
			}
			c.Children = append(c.Children, p.consumeComponent())
		}
	}
	return Component{Tok: t}
}

// ParseRules parses a stylesheet's top-level rule list. Comments are kept as component values so
// callers can see them (a real parser drops them; they never change the structure).
func ParseRules(s string) []Rule {
	p := &parser{toks: Tokenize(s)}
	var rules []Rule
	for {
		t := p.peek()
		switch t.Kind {
		case EOF:
			return rules
		case Whitespace, CDO, CDC, Comment:
			p.pos++
		case AtKeyword:
			p.pos++
			r := Rule{At: true, Name: t.Value}
			for {
				n := p.peek()
				if n.Kind == Semicolon {
					p.pos++
					break
				}
				if n.Kind == EOF {
					break
				}
				if n.Kind == LBrace {
					b := p.consumeComponent()
					r.Block, r.HasBlock = b.Children, true
					break
				}
				r.Prelude = append(r.Prelude, p.consumeComponent())
			}
			rules = append(rules, r)
		default:
			var r Rule
			ok := false
			for {
				n := p.peek()
				if n.Kind == EOF {
					break // parse error: the rule is dropped
				}
				if n.Kind == LBrace {
					b := p.consumeComponent()
					r.Block, r.HasBlock = b.Children, true
					ok = true
					break
				}
				r.Prelude = append(r.Prelude, p.consumeComponent())
			}
			if ok {
				rules = append(rules, r)
			}
		}
	}
}

type Declaration struct {
	Name  string
	Value []Component
}

// DeclList is the result of "consume a list of declarations".
type DeclList struct {
	Decls   []Declaration
	AtRules int
	Errors  int // runs of component values that are not a declaration
}

// ParseDeclarations consumes a list of declarations from component values (a rule's block).
func ParseDeclarations(cs []Component) DeclList {
	var dl DeclList
	i := 0
	for i < len(cs) {
		c := cs[i]
		switch {
		case !c.IsBlock && (c.Tok.Kind == Whitespace || c.Tok.Kind == Semicolon || c.Tok.Kind == Comment):
			i++
		case !c.IsBlock && c.Tok.Kind == AtKeyword:
			dl.AtRules++
			i++
			for i < len(cs) {
				if !cs[i].IsBlock && cs[i].Tok.Kind == Semicolon {
					i++
					break
				}
				if cs[i].IsBlock && cs[i].Block == LBrace {
					i++
					break
				}
				i++
			}
		default:
			j := i
			for j < len(cs) && !(!cs[j].IsBlock && cs[j].Tok.Kind == Semicolon) {
				j++
			}
			run := cs[i:j]
			if d, ok := parseDeclaration(run); ok {
				dl.Decls = append(dl.Decls, d)
			} else {
				dl.Errors++
			}
			i = j
		}
	}
	return dl
}

func parseDeclaration(run []Component) (Declaration, bool) {
	if len(run) == 0 || run[0].IsBlock || run[0].Tok.Kind != Ident {
		return Declaration{}, false
	}
	d := Declaration{Name: run[0].Tok.Value}
	k := 1
	for k < len(run) && !run[k].IsBlock && (run[k].Tok.Kind == Whitespace || run[k].Tok.Kind == Comment) {
		k++
	}
	if k >= len(run) || run[k].IsBlock || run[k].Tok.Kind != Colon {
		return Declaration{}, false
	}
	d.Value = run[k+1:]
	return d, true
}

// ParseDeclarationList parses the contents of a style attribute.
func ParseDeclarationList(s string) DeclList {
	p := &parser{toks: Tokenize(s)}
	var cs []Component
	for p.peek().Kind != EOF {
		cs = append(cs, p.consumeComponent())
	}
	return ParseDeclarations(cs)
}

// Walk calls f for every component value, depth first.
func Walk(cs []Component, f func(c Component)) {
	for _, c := range cs {
		f(c)
		if c.IsBlock {
			Walk(c.Children, f)
		}
	}
}

// Text re-serialises component values approximately (for messages).
func Text(cs []Component) string {
	var sb strings.Builder
	var w func(cs []Component)
	w = func(cs []Component) {
		for _, c := range cs {
			sb.WriteString(c.Tok.Raw)
			if c.IsBlock {
				w(c.Children)
				if c.Closed {
					switch closer(c.Block) {
					case RBrace:
						sb.WriteString("}")
					case RBracket:
						sb.WriteString("]")
					default:
						sb.WriteString(")")
					}
				}
			}
		}
	}
	w(cs)
	return sb.String()
}
