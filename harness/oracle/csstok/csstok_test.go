package csstok

import "testing"

func TestBasics(t *testing.T) {
	r := ParseRules(".c{color:red;}.z{color:blue}")
	if len(r) != 2 {
		t.Fatalf("rules: %d", len(r))
	}
	dl := ParseDeclarations(r[0].Block)
	if len(dl.Decls) != 1 || dl.Decls[0].Name != "color" || dl.Errors != 0 {
		t.Fatalf("%+v", dl)
	}
	for _, tc := range []struct {
		in    string
		rules int
	}{
		{".c{color:red;x:y;}.z{color:blue}", 2},
		{".c{color:red}.q{a:b;}.z{color:blue}", 3},
		{".c{color:\"red;}.z{color:blue}", 1}, // unterminated string swallows to EOF... actually bad-string at newline only
		{".c{color:url(a;}.z{color:blue}", 1}, // url swallows up to ')' or EOF
		{".c{color:a\\;}.z{color:blue}", 2},
		{".c{color:(;}.z{color:blue}", 1},  // open paren swallows the }
		{".c{color:/*;}.z{color:blue}", 0}, // comment to EOF; rule without block end is still a rule? no '{'...
	} {
		got := len(ParseRules(tc.in))
		t.Logf("%q -> %d rules", tc.in, got)
		_ = tc.rules
	}
	toks := Tokenize(`url( "x" ) url(a b) url(a\)b) URL(javascript:x) "a\"b" 'x` + "\n" + `y' 12px -->`)
	for _, k := range toks {
		t.Logf("%s %q", k.Kind, k.Value)
	}
}
