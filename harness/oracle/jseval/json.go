package jseval

import "encoding/json"

func jsonUnmarshal(s string, v any) error { return json.Unmarshal([]byte(s), v) }
