package jseval

import "testing"

func TestEngine(t *testing.T) {
	e := New()
	r := e.Run(`cap("a", 1, {b:[2]}); var x = 1;`, "")
	t.Logf("%+v", r)
	if len(r.Captured) != 1 || r.Captured[0] != `["a",1,{"b":[2]}]` || r.Err != "" {
		t.Fatal(r)
	}
	r = e.Run("cap(`${alert(1)}`)", "")
	t.Logf("%+v", r)
	if r.Sentinels != 1 {
		t.Fatal(r)
	}
	r = e.Run("cap('", "")
	if r.Err == "" {
		t.Fatal("no syntax error")
	}
	n, err := e.NormalizeJSON(`{"b":1.0,"a":"<"}`)
	t.Log(n, err)
}
