// Package jseval evaluates emitted JavaScript in a real engine (V8 through rogchap.com/v8go) and
// reports what the script actually did: which values reached the capture function, whether a
// sentinel was called, whether it failed to parse or threw.
package jseval

import (
	"fmt"
	"strings"
	"sync"
	"unicode/utf8"

	v8 "rogchap.com/v8go"
)

// Engine is one V8 isolate. Not safe for concurrent use; guard with its mutex via Run.
type Engine struct {
	mu  sync.Mutex
	iso *v8.Isolate
	n   int
	ctx *v8.Context
}

func New() *Engine {
	return &Engine{iso: v8.NewIsolate()}
}

// Result of evaluating one script.
type Result struct {
	Captured  []string // JSON.stringify of each cap() call's argument list
	Sentinels int      // calls to alert/pwn/...
	Err       string   // syntax error or exception ("" if none)
	Globals   string   // names the scripts added to the global object
	ErrIndex  int      // index of the failing script
}

const prelude = `
var __cap = [], __sent = 0;
function cap() { __cap.push(JSON.stringify(Array.prototype.slice.call(arguments))); }
function alert() { __sent++; }
function pwn() { __sent++; }
function __templ_invalid_js_function_name() { __cap.push("INVALID_NAME"); }
var console = { log: function() {}, error: function() {} };
var __before = Object.getOwnPropertyNames(this);
`

// ToValidUTF8 decodes bytes the way a browser's UTF-8 decoder would: each invalid byte becomes U+FFFD.
func ToValidUTF8(s string) string {
	if utf8.ValidString(s) {
		return s
	}
	var sb strings.Builder
	for i := 0; i < len(s); {
		r, w := utf8.DecodeRuneInString(s[i:])
		if r == utf8.RuneError && w == 1 {
			sb.WriteRune(0xFFFD)
		} else {
			sb.WriteString(s[i : i+w])
		}
		i += w
	}
	return sb.String()
}

// Run evaluates script (after the prelude) in a fresh context.
func (e *Engine) Run(script string, extraPrelude string) (res Result) {
	r := e.RunSeq([]string{script}, extraPrelude)
	return r
}

// RunSeq evaluates the scripts one after the other in one fresh context, as a browser runs the
// script elements and then an event handler of one document. Err holds the first failure
// ("script <i>: ..."); ErrIndex its index (-1 if none). Later scripts still run.
func (e *Engine) RunSeq(scripts []string, extraPrelude string) (res Result) {
	e.mu.Lock()
	defer e.mu.Unlock()
	res.ErrIndex = -1
	// a fresh context per document; recycle the isolate now and then to bound memory
	e.n++
	if e.n%5000 == 0 {
		e.iso.Dispose()
		e.iso = v8.NewIsolate()
	}
	ctx := v8.NewContext(e.iso)
	defer ctx.Close()
	if _, err := ctx.RunScript(prelude+extraPrelude, "prelude.js"); err != nil {
		panic("jseval prelude: " + err.Error())
	}
	for i, script := range scripts {
		if _, err := ctx.RunScript(ToValidUTF8(script), fmt.Sprintf("emitted%d.js", i)); err != nil && res.Err == "" {
			res.Err = err.Error()
			res.ErrIndex = i
		}
	}
	v, err2 := ctx.RunScript(`JSON.stringify({cap: __cap, sent: __sent, globals: Object.getOwnPropertyNames(this).filter(function(n){return __before.indexOf(n) < 0 && n !== "__before"})})`, "collect.js")
	if err2 != nil {
		res.Err += " | collect: " + err2.Error()
		return res
	}
	out := v.String()
	parseCollect(out, &res)
	return res
}

// NormalizeJSON returns JSON.stringify(JSON.parse(j)) computed inside V8, so that number
// formatting and key order follow JavaScript on both sides of a comparison.
func (e *Engine) NormalizeJSON(j string) (string, error) {
	e.mu.Lock()
	defer e.mu.Unlock()
	ctx := v8.NewContext(e.iso)
	defer ctx.Close()
	val, err := v8.NewValue(e.iso, ToValidUTF8(j))
	if err != nil {
		return "", err
	}
	if err := ctx.Global().Set("__j", val); err != nil {
		return "", err
	}
	v, err := ctx.RunScript(`JSON.stringify(JSON.parse(__j))`, "norm.js")
	if err != nil {
		return "", err
	}
	return v.String(), nil
}

// StringifyString returns JSON.stringify([s]) computed inside V8 for a string passed through the
// embedding API: the expected capture of a call cap(<literal evaluating to s>).
func (e *Engine) StringifyArgs(jsonArgs string) (string, error) {
	return e.NormalizeJSON(jsonArgs)
}

func parseCollect(out string, res *Result) {
	// tiny hand parser to avoid importing encoding/json semantics for strings: use encoding/json anyway
	type coll struct {
		Cap     []string `json:"cap"`
		Sent    int      `json:"sent"`
		Globals []string `json:"globals"`
	}
	var c coll
	if err := jsonUnmarshal(out, &c); err != nil {
		res.Err += fmt.Sprintf(" | collect parse: %v", err)
		return
	}
	res.Captured = c.Cap
	res.Sentinels = c.Sent
	res.Globals = strings.Join(c.Globals, ",")
}
