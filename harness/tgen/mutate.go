package tgen

import (
	"encoding/json"
	"strings"

	"pgregory.net/rapid"
)

// Clone deep-copies a file.
func Clone(f *File) *File {
	b, _ := json.Marshal(f)
	var out File
	_ = json.Unmarshal(b, &out)
	return &out
}

// lists collects pointers to every sibling list of the file.
func lists(f *File) []*[]Node {
	var out []*[]Node
	var walk func(ns *[]Node)
	walk = func(ns *[]Node) {
		out = append(out, ns)
		for i := range *ns {
			n := &(*ns)[i]
			if len(n.Kids) > 0 || n.Kind == "element" {
				walk(&n.Kids)
			}
			if n.HasElse {
				walk(&n.Else)
			}
			for j := range n.ElseIfs {
				walk(&n.ElseIfs[j].Kids)
			}
			for j := range n.Cases {
				walk(&n.Cases[j].Kids)
			}
		}
	}
	for i := range f.Templates {
		walk(&f.Templates[i].Body)
	}
	return out
}

func nodesOf(f *File, pred func(n *Node) bool) []*Node {
	var out []*Node
	for _, l := range lists(f) {
		for i := range *l {
			if pred(&(*l)[i]) {
				out = append(out, &(*l)[i])
			}
		}
	}
	return out
}

// Mutate returns an edited copy of the program and the name of the edit, or ("", nil) if the drawn
// edit does not apply. The edits are the ones a developer makes while `templ generate --watch`
// runs: text changes, attribute renames (incl. to/from style, class, href, on*), moving an
// expression between text, attribute and script positions, reordering and renaming nodes.
func Mutate(t *rapid.T, f *File) (*File, string) {
	g := Clone(f)
	pick := func(ns []*Node) *Node {
		if len(ns) == 0 {
			return nil
		}
		return ns[rapid.IntRange(0, len(ns)-1).Draw(t, "target")]
	}
	kind := rapid.SampledFrom([]string{"text", "text", "attr-value", "attr-rename", "attr-rename", "swap", "element-rename", "expr-to-attr", "attr-to-expr", "script-quote", "expr-to-script", "add-text", "drop-node", "wrap"}).Draw(t, "edit")
	switch kind {
	case "text":
		n := pick(nodesOf(g, func(n *Node) bool { return n.Kind == "text" }))
		if n == nil {
			return nil, ""
		}
		n.Text = rapid.SampledFrom([]string{"edited", "new \"quoted\" text", "back\\slash", "é ü 世界", "tab\tx", "a&amp;b"}).Draw(t, "newtext")
	case "add-text":
		ls := lists(g)
		l := ls[rapid.IntRange(0, len(ls)-1).Draw(t, "list")]
		*l = append(*l, Node{Kind: "text", Text: "added", Sep: "\n"})
	case "drop-node":
		ls := lists(g)
		l := ls[rapid.IntRange(0, len(ls)-1).Draw(t, "list")]
		if len(*l) < 2 {
			return nil, ""
		}
		i := rapid.IntRange(0, len(*l)-1).Draw(t, "idx")
		if (*l)[i].Kind == "gocode" || (*l)[i].Kind == "for" {
			return nil, "" // would leave a variable unused / undefined: not an edit that compiles
		}
		*l = append((*l)[:i:i], (*l)[i+1:]...)
	case "attr-value":
		n := pick(nodesOf(g, func(n *Node) bool {
			for _, a := range n.Attrs {
				if a.Kind == "const" {
					return true
				}
			}
			return false
		}))
		if n == nil {
			return nil, ""
		}
		for i := range n.Attrs {
			if n.Attrs[i].Kind == "const" {
				n.Attrs[i].Val, n.Attrs[i].Quote = "edited value", `"`
				break
			}
		}
	case "attr-rename":
		n := pick(nodesOf(g, func(n *Node) bool {
			for _, a := range n.Attrs {
				if a.Kind == "expr" && a.E.Kind != "orerr" {
					return true
				}
			}
			return false
		}))
		if n == nil {
			return nil, ""
		}
		for i := range n.Attrs {
			if n.Attrs[i].Kind == "expr" && n.Attrs[i].E.Kind != "orerr" {
				to := rapid.SampledFrom([]string{"style", "class", "href", "onclick", "data-renamed", "title", "action", "hx-on:click"}).Draw(t, "newname")
				kind += ":" + n.Attrs[i].Name + "->" + to
				n.Attrs[i].Name = to
				if to == "href" {
					n.Name = "a"
				}
				if to == "action" {
					n.Name = "form"
				}
				break
			}
		}
	case "swap":
		ls := lists(g)
		l := ls[rapid.IntRange(0, len(ls)-1).Draw(t, "list")]
		if len(*l) < 2 {
			return nil, ""
		}
		i := rapid.IntRange(0, len(*l)-2).Draw(t, "idx")
		a, b := (*l)[i], (*l)[i+1]
		if a.Kind == "gocode" || b.Kind == "gocode" {
			return nil, ""
		}
		(*l)[i], (*l)[i+1] = b, a
	case "element-rename":
		n := pick(nodesOf(g, func(n *Node) bool { return n.Kind == "element" && !n.Void }))
		if n == nil {
			return nil, ""
		}
		n.Name = rapid.SampledFrom([]string{"div", "span", "section", "b"}).Draw(t, "newelem")
	case "expr-to-attr":
		n := pick(nodesOf(g, func(n *Node) bool { return n.Kind == "expr" && n.E.Kind != "orerr" && !n.L.ExprLines }))
		if n == nil {
			return nil, ""
		}
		e := n.E
		name := rapid.SampledFrom([]string{"title", "data-v", "style", "onclick"}).Draw(t, "attrname")
		kind += ":" + name
		*n = Node{Kind: "element", Name: "span", Attrs: []Attr{{Kind: "expr", Name: name, E: e}}, Sep: n.Sep, L: Layout{Inline: true, Pad: 1}}
	case "attr-to-expr":
		n := pick(nodesOf(g, func(n *Node) bool {
			return n.Kind == "element" && len(n.Attrs) == 1 && n.Attrs[0].Kind == "expr" && len(n.Kids) == 0 && !n.Void
		}))
		if n == nil {
			return nil, ""
		}
		e := n.Attrs[0].E
		n.Attrs = nil
		n.Kids = []Node{{Kind: "expr", E: e, L: Layout{Pad: 1}}}
		n.L.Inline = true
	case "script-quote":
		n := pick(nodesOf(g, func(n *Node) bool { return n.Kind == "script" && strings.Contains(n.Text, "{{ s1 }}") }))
		if n == nil {
			return nil, ""
		}
		if strings.Contains(n.Text, "\"{{ s1 }}\"") {
			n.Text = strings.Replace(n.Text, "\"{{ s1 }}\"", "{{ s1 }}", 1)
			kind += ":unquote"
		} else {
			n.Text = strings.Replace(n.Text, "{{ s1 }}", "\"{{ s1 }}\"", 1)
			kind += ":quote"
		}
	case "expr-to-script":
		n := pick(nodesOf(g, func(n *Node) bool { return n.Kind == "expr" && n.E.Kind == "var" && n.E.Str == "s1" }))
		if n == nil {
			return nil, ""
		}
		*n = Node{Kind: "script", Text: rapid.SampledFrom([]string{"var a = {{ s1 }};", "var a = \"{{ s1 }}\";", "var a = '{{ s1 }}';"}).Draw(t, "js"), Sep: "\n"}
	case "wrap":
		ls := lists(g)
		l := ls[rapid.IntRange(0, len(ls)-1).Draw(t, "list")]
		if len(*l) == 0 {
			return nil, ""
		}
		i := rapid.IntRange(0, len(*l)-1).Draw(t, "idx")
		if (*l)[i].Kind == "gocode" {
			return nil, ""
		}
		inner := (*l)[i]
		inner.Sep = "\n"
		(*l)[i] = Node{Kind: "element", Name: "section", Kids: []Node{inner}, Sep: "\n"}
	}
	Normalize(g)
	return g, kind
}
