package tgen

import (
	"encoding/json"
	"strings"

	"pgregory.net/rapid"
)

// Clone deep-copies a file.
func Clone(f *File) *File {
	b, _ := json.Marshal(f)
	var out File
	_ = json.Unmarshal(b, &out)
	return &out
}

// lists collects pointers to every sibling list of the file.
func lists(f *File) []*[]Node {
	var out []*[]Node
	var walk func(ns *[]Node)
	walk = func(ns *[]Node) {
		out = append(out, ns)
		for i := range *ns {
			n := &(*ns)[i]
			if len(n.Kids) > 0 || n.Kind == "element" {
				walk(&n.Kids)
			}
			if n.HasElse {
				walk(&n.Else)
			}
			for j := range n.ElseIfs {
				walk(&n.ElseIfs[j].Kids)
			}
			for j := range n.Cases {
				walk(&n.Cases[j].Kids)
			}
		}
	}
	for i := range f.Templates {
		walk(&f.Templates[i].Body)
	}
	return out
}

func nodesOf(f *File, pred func(n *Node) bool) []*Node {
	var out []*Node
	for _, l := range lists(f) {
		for i := range *l {
			if pred(&(*l)[i]) {
				out = append(out, &(*l)[i])
			}
		}
	}
	return out
}

// Mutate returns an edited copy of the program and the name of the edit, or ("", nil) if the drawn
// edit does not apply. The edits are the ones a developer makes while `templ generate --watch`
// runs: text changes, attribute renames (incl. to/from style, class, href, on*), moving an
// expression between text, attribute and script positions, reordering and renaming nodes.
func Mutate(t *rapid.T, f *File) (*File, string) {
	g := Clone(f)
	pick := func(ns []*Node) *Node {
		if len(ns) == 0 {
			return nil
		}
		return ns[rapid.IntRange(0, len(ns)-1).Draw(t, "target")]
	}
	kind := rapid.SampledFrom([]string{"text", "text", "attr-value", "attr-rename", "attr-rename", "swap", "element-rename", "expr-to-attr", "attr-to-expr", "script-quote", "expr-to-script", "add-text", "drop-node", "wrap", "expr-replace", "expr-replace", "attr-expr-replace"}).Draw(t, "edit")
	switch kind {
	case "text":
		n := pick(nodesOf(g, func(n *Node) bool { return n.Kind == "text" }))
		if n == nil {
			return nil, ""
		}
		n.Text = rapid.SampledFrom([]string{"edited", "new \"quoted\" text", "back\\slash", "é ü 世界", "tab\tx", "a&amp;b"}).Draw(t, "newtext")
	case "add-text":
		ls := lists(g)
		l := ls[rapid.IntRange(0, len(ls)-1).Draw(t, "list")]
		*l = append(*l, Node{Kind: "text", Text: "added", Sep: "\n"})
	case "drop-node":
		ls := lists(g)
		l := ls[rapid.IntRange(0, len(ls)-1).Draw(t, "list")]
		if len(*l) < 2 {
			return nil, ""
		}
		i := rapid.IntRange(0, len(*l)-1).Draw(t, "idx")
		if (*l)[i].Kind == "gocode" || (*l)[i].Kind == "for" {
			return nil, "" // would leave a variable unused / undefined: not an edit that compiles
		}
		*l = append((*l)[:i:i], (*l)[i+1:]...)
	case "attr-value":
		n := pick(nodesOf(g, func(n *Node) bool {
			for _, a := range n.Attrs {
				if a.Kind == "const" {
					return true
				}
			}
			return false
		}))
		if n == nil {
			return nil, ""
		}
		for i := range n.Attrs {
			if n.Attrs[i].Kind == "const" {
				n.Attrs[i].Val, n.Attrs[i].Quote = "edited value", `"`
				break
			}
		}
	case "attr-rename":
		n := pick(nodesOf(g, func(n *Node) bool {
			for _, a := range n.Attrs {
				if a.Kind == "expr" && a.E.Kind != "orerr" {
					return true
				}
			}
			return false
		}))
		if n == nil {
			return nil, ""
		}
		for i := range n.Attrs {
			if n.Attrs[i].Kind == "expr" && n.Attrs[i].E.Kind != "orerr" {
				to := rapid.SampledFrom([]string{"style", "class", "href", "onclick", "data-renamed", "title", "action", "hx-on:click", "Class", "CLASS", "STYLE", "Title", "onClick", "Href"}).Draw(t, "newname")
				kind += ":" + n.Attrs[i].Name + "->" + to
				n.Attrs[i].Name = to
				if strings.EqualFold(to, "href") {
					n.Name = "a"
				}
				if to == "action" {
					n.Name = "form"
				}
				break
			}
		}
	case "attr-expr-replace":
		// the same, inside the value of an expression attribute
		var cands []*Expr
		for _, n := range nodesOf(g, func(n *Node) bool { return len(n.Attrs) > 0 }) {
			for i := range n.Attrs {
				if n.Attrs[i].Kind == "expr" && n.Attrs[i].E != nil {
					for _, l := range leavesOf(n.Attrs[i].E) {
						if l.Kind == "var" || l.Kind == "strlit" {
							cands = append(cands, l)
						}
					}
				}
			}
		}
		if len(cands) == 0 {
			return nil, ""
		}
		e := cands[rapid.IntRange(0, len(cands)-1).Draw(t, "attrleaf")]
		if e.Kind == "var" {
			if e.Str == "s1" {
				e.Str = "s2"
			} else {
				e.Str = "s1"
			}
		} else if rapid.Bool().Draw(t, "attrLitWS") {
			e.Str += " " // whitespace inside a literal is data
		} else {
			e.Str += "E"
		}
	case "expr-replace":
		// the plainest Go-level edit: one leaf of one Go expression becomes another value of the
		// same type, wherever the expression stands (text, attribute, class list, condition, loop
		// header, switch tag and case values, call argument, raw Go)
		leaves := exprLeaves(g)
		if len(leaves) == 0 {
			return nil, ""
		}
		e := leaves[rapid.IntRange(0, len(leaves)-1).Draw(t, "leaf")]
		switch e.Kind {
		case "var":
			if e.Str == "s1" {
				e.Str = "s2"
			} else {
				e.Str = "s1"
			}
		case "bvar":
			if e.Str == "b1" {
				e.Str = "b2"
			} else {
				e.Str = "b1"
			}
		case "strlit":
			switch rapid.IntRange(0, 3).Draw(t, "litEdit") {
			case 0:
				e.Str = e.Str + "E"
			case 1:
				// only whitespace inside the literal changes (data, not layout)
				if strings.Contains(e.Str, " ") {
					e.Str = strings.Replace(e.Str, " ", "  ", 1)
				} else {
					e.Str = e.Str + " "
				}
			case 2:
				if strings.Contains(e.Str, " ") {
					e.Str = strings.Replace(e.Str, " ", "\t", 1)
				} else {
					e.Str = " " + e.Str
				}
			default:
				e.Str = strings.ToUpper(e.Str) + "."
			}
		case "intlit":
			e.Num++
		}
		kind += ":" + e.Kind
	case "swap":
		ls := lists(g)
		l := ls[rapid.IntRange(0, len(ls)-1).Draw(t, "list")]
		if len(*l) < 2 {
			return nil, ""
		}
		i := rapid.IntRange(0, len(*l)-2).Draw(t, "idx")
		a, b := (*l)[i], (*l)[i+1]
		if a.Kind == "gocode" || b.Kind == "gocode" {
			return nil, ""
		}
		(*l)[i], (*l)[i+1] = b, a
	case "element-rename":
		n := pick(nodesOf(g, func(n *Node) bool { return n.Kind == "element" && !n.Void }))
		if n == nil {
			return nil, ""
		}
		n.Name = rapid.SampledFrom([]string{"div", "span", "section", "b"}).Draw(t, "newelem")
	case "expr-to-attr":
		n := pick(nodesOf(g, func(n *Node) bool { return n.Kind == "expr" && n.E.Kind != "orerr" && !n.L.ExprLines }))
		if n == nil {
			return nil, ""
		}
		e := n.E
		name := rapid.SampledFrom([]string{"title", "data-v", "style", "onclick"}).Draw(t, "attrname")
		kind += ":" + name
		*n = Node{Kind: "element", Name: "span", Attrs: []Attr{{Kind: "expr", Name: name, E: e}}, Sep: n.Sep, L: Layout{Inline: true, Pad: 1}}
	case "attr-to-expr":
		n := pick(nodesOf(g, func(n *Node) bool {
			return n.Kind == "element" && len(n.Attrs) == 1 && n.Attrs[0].Kind == "expr" && len(n.Kids) == 0 && !n.Void
		}))
		if n == nil {
			return nil, ""
		}
		e := n.Attrs[0].E
		n.Attrs = nil
		n.Kids = []Node{{Kind: "expr", E: e, L: Layout{Pad: 1}}}
		n.L.Inline = true
	case "script-quote":
		n := pick(nodesOf(g, func(n *Node) bool { return n.Kind == "script" && strings.Contains(n.Text, "{{ s1 }}") }))
		if n == nil {
			return nil, ""
		}
		if strings.Contains(n.Text, "\"{{ s1 }}\"") {
			n.Text = strings.Replace(n.Text, "\"{{ s1 }}\"", "{{ s1 }}", 1)
			kind += ":unquote"
		} else {
			n.Text = strings.Replace(n.Text, "{{ s1 }}", "\"{{ s1 }}\"", 1)
			kind += ":quote"
		}
	case "expr-to-script":
		n := pick(nodesOf(g, func(n *Node) bool { return n.Kind == "expr" && n.E.Kind == "var" && n.E.Str == "s1" }))
		if n == nil {
			return nil, ""
		}
		*n = Node{Kind: "script", Text: rapid.SampledFrom([]string{"var a = {{ s1 }};", "var a = \"{{ s1 }}\";", "var a = '{{ s1 }}';"}).Draw(t, "js"), Sep: "\n"}
	case "wrap":
		ls := lists(g)
		l := ls[rapid.IntRange(0, len(ls)-1).Draw(t, "list")]
		if len(*l) == 0 {
			return nil, ""
		}
		i := rapid.IntRange(0, len(*l)-1).Draw(t, "idx")
		if (*l)[i].Kind == "gocode" {
			return nil, ""
		}
		inner := (*l)[i]
		inner.Sep = "\n"
		(*l)[i] = Node{Kind: "element", Name: "section", Kids: []Node{inner}, Sep: "\n"}
	}
	Normalize(g)
	return g, kind
}

// exprLeaves collects pointers to the variable and literal leaves of every Go expression of the file.
func exprLeaves(f *File) []*Expr {
	var out []*Expr
	var expr func(e *Expr)
	expr = func(e *Expr) {
		if e == nil {
			return
		}
		switch e.Kind {
		case "var", "bvar", "strlit", "intlit":
			out = append(out, e)
		}
		for i := range e.Args {
			expr(&e.Args[i])
		}
	}
	var attrs func(as []Attr)
	attrs = func(as []Attr) {
		for i := range as {
			a := &as[i]
			expr(a.E)
			expr(a.Cond)
			for j := range a.Items {
				expr(a.Items[j].E)
				expr(a.Items[j].Cond)
			}
			attrs(a.Then)
			attrs(a.Else)
		}
	}
	for _, l := range lists(f) {
		for i := range *l {
			n := &(*l)[i]
			expr(n.E)
			expr(n.Cond)
			attrs(n.Attrs)
			for j := range n.ElseIfs {
				expr(&n.ElseIfs[j].Cond)
			}
			for j := range n.Cases {
				for k := range n.Cases[j].Vals {
					expr(&n.Cases[j].Vals[k])
				}
			}
		}
	}
	return out
}

func leavesOf(e *Expr) []*Expr {
	var out []*Expr
	var walk func(e *Expr)
	walk = func(e *Expr) {
		switch e.Kind {
		case "var", "bvar", "strlit", "intlit":
			out = append(out, e)
		}
		for i := range e.Args {
			walk(&e.Args[i])
		}
	}
	walk(e)
	return out
}

// RenameExprAttr renames one expression attribute of the file (if it has any) and reports whether
// it did.
func RenameExprAttr(t *rapid.T, f *File, names []string) bool {
	ns := nodesOf(f, func(n *Node) bool {
		for _, a := range n.Attrs {
			if a.Kind == "expr" && a.E.Kind != "orerr" {
				return true
			}
		}
		return false
	})
	if len(ns) == 0 {
		return false
	}
	n := ns[rapid.IntRange(0, len(ns)-1).Draw(t, "renameTarget")]
	for i := range n.Attrs {
		if n.Attrs[i].Kind == "expr" && n.Attrs[i].E.Kind != "orerr" {
			n.Attrs[i].Name = rapid.SampledFrom(names).Draw(t, "renameTo")
			return true
		}
	}
	return false
}
