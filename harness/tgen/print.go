package tgen

import (
	"fmt"
	"sort"
	"strconv"
	"strings"
)

// Record says where one Go expression of the program was put in the source text.
type Record struct {
	Slot  string `json:"slot"`
	Start int    `json:"start"` // byte offset of the first byte of the expression
	End   int    `json:"end"`   // byte offset just past its last byte
	Text  string `json:"text"`
}

type printer struct {
	sb      strings.Builder
	recs    []Record
	prefix  string
	imports map[string]bool
	latin1  bool
}

// toLatin1 re-encodes the runes U+0080..U+00FF as single bytes: what a file saved in ISO-8859-1
// holds. The result is not valid UTF-8.
func toLatin1(s string) string {
	var b strings.Builder
	for _, r := range s {
		if r >= 0x80 && r <= 0xff {
			b.WriteByte(byte(r))
		} else {
			b.WriteRune(r)
		}
	}
	return b.String()
}

func (p *printer) w(s string) { p.sb.WriteString(s) }

func (p *printer) indent(n int) { p.sb.WriteString(strings.Repeat("\t", n)) }

// expr writes a Go expression and records its position.
func (p *printer) expr(slot, src string) {
	start := p.sb.Len()
	p.sb.WriteString(src)
	p.recs = append(p.recs, Record{Slot: slot, Start: start, End: p.sb.Len(), Text: src})
}

// ---------- expression spelling ----------

func quoteLit(val, form string) string {
	switch form {
	case "raw":
		if !strings.ContainsAny(val, "`\r") {
			return "`" + val + "`"
		}
	case "ascii":
		return strconv.QuoteToASCII(val)
	}
	return strconv.Quote(val)
}

// Src is the Go source of the expression. multi spreads binary operators and call arguments over
// several lines (continuation lines indented by ind tabs).
func (p *printer) src(e *Expr, multi bool, ind int) string {
	nl := " "
	if multi {
		nl = "\n" + strings.Repeat("\t", ind+1)
	}
	switch e.Kind {
	case "var", "bvar", "ivar":
		return e.Str
	case "strlit":
		return quoteLit(e.Str, e.Lit)
	case "intlit":
		return strconv.Itoa(e.Num)
	case "true", "false":
		return e.Kind
	case "concat":
		if multi && e.Cmt {
			return p.src(&e.Args[0], false, ind) + " + // joined" + nl + p.src(&e.Args[1], false, ind)
		}
		return p.src(&e.Args[0], false, ind) + " +" + nl + p.src(&e.Args[1], false, ind)
	case "sprintf":
		p.imports["fmt"] = true
		parts := []string{strconv.Quote(e.Fmt)}
		for i := range e.Args {
			parts = append(parts, p.src(&e.Args[i], false, ind))
		}
		if multi {
			return "fmt.Sprintf(" + nl + strings.Join(parts, ","+nl) + "," + "\n" + strings.Repeat("\t", ind) + ")"
		}
		return "fmt.Sprintf(" + strings.Join(parts, ", ") + ")"
	case "upper":
		p.imports["strings"] = true
		return "strings.ToUpper(" + p.src(&e.Args[0], false, ind) + ")"
	case "itoa":
		p.imports["strconv"] = true
		return "strconv.Itoa(" + p.src(&e.Args[0], false, ind) + ")"
	case "orerr":
		return "strOrErr(" + p.src(&e.Args[0], false, ind) + ", fail)"
	case "tick":
		return "tick(" + strconv.Quote(e.Str) + ")"
	case "not":
		return "!" + p.paren(&e.Args[0], ind)
	case "eq":
		return p.src(&e.Args[0], false, ind) + " == " + p.src(&e.Args[1], false, ind)
	case "gt":
		return p.src(&e.Args[0], false, ind) + " > " + p.src(&e.Args[1], false, ind)
	case "and":
		return p.paren(&e.Args[0], ind) + " &&" + nl + p.paren(&e.Args[1], ind)
	case "or":
		return p.paren(&e.Args[0], ind) + " ||" + nl + p.paren(&e.Args[1], ind)
	case "nonempty":
		return "len(xs) > 0"
	case "len":
		return "len(xs)"
	case "plus":
		return p.src(&e.Args[0], false, ind) + " + " + p.src(&e.Args[1], false, ind)
	}
	panic("tgen: unknown expression kind " + e.Kind)
}

func (p *printer) paren(e *Expr, ind int) string {
	s := p.src(e, false, ind)
	switch e.Kind {
	case "and", "or", "eq", "gt", "nonempty":
		return "(" + s + ")"
	}
	return s
}

func pad(n int) string {
	switch n {
	case 0:
		return ""
	case 2:
		return "  "
	}
	return " "
}

// ---------- nodes ----------

func (p *printer) attr(a *Attr, ind int, multi bool) {
	switch a.Kind {
	case "const":
		p.w(a.Name + "=" + a.Quote + a.Val + a.Quote)
	case "boolconst":
		p.w(a.Name)
	case "expr":
		p.attrBraces(a, ind, p.src(a.E, a.Lines, ind))
	case "boolexpr":
		p.w(a.Name + "?={ ")
		p.expr("boolean attribute", p.src(a.Cond, false, ind))
		p.w(" }")
	case "href":
		fn := "templ.URL"
		if a.Safe {
			fn = "templ.SafeURL"
		}
		p.w(a.Name + "={ ")
		p.expr("attribute", fn+"("+p.src(a.E, false, ind)+")")
		p.w(" }")
	case "class":
		var items []string
		for i := range a.Items {
			it := &a.Items[i]
			if it.Kind == "kv" {
				items = append(items, "templ.KV("+p.src(it.E, false, ind)+", "+p.src(it.Cond, false, ind)+")")
			} else {
				items = append(items, p.src(it.E, false, ind))
			}
		}
		p.attrBraces(a, ind, strings.Join(items, ", "))
	case "cond":
		// conditional attributes always span lines
		p.w("if ")
		p.expr("conditional attribute", p.src(a.Cond, false, ind))
		p.w(" {\n")
		for i := range a.Then {
			p.indent(ind + 1)
			p.attr(&a.Then[i], ind+1, true)
			p.w("\n")
		}
		p.indent(ind)
		p.w("}")
		if a.HasElse {
			p.w(" else {\n")
			for i := range a.Else {
				p.indent(ind + 1)
				p.attr(&a.Else[i], ind+1, true)
				p.w("\n")
			}
			p.indent(ind)
			p.w("}")
		}
	}
}

// attrBraces writes name={ expr } in the attribute's spelling.
func (p *printer) attrBraces(a *Attr, ind int, src string) {
	name := a.Name
	if a.Kind == "class" {
		name = "class"
	}
	if a.Tight {
		src = strings.NewReplacer(" + ", "+", " == ", "==", " > ", ">", " && ", "&&", " || ", "||").Replace(src)
	}
	switch a.Pad {
	case 1:
		p.w(name + "={")
		p.expr("attribute", src)
		p.w("}")
	case 2, 3:
		p.w(name + "={\n")
		p.indent(ind + 1)
		p.expr("attribute", src)
		if a.Pad == 3 {
			p.w(",")
		}
		p.w("\n")
		p.indent(ind)
		p.w("}")
	default:
		p.w(name + "={ ")
		p.expr("attribute", src)
		p.w(" }")
	}
}

// needsAttrLines: attributes that must be written one per line (conditional attributes and
// newline-padded braces); an attribute whose expression merely spans lines keeps its neighbours.
func needsAttrLines(attrs []Attr) bool {
	for _, a := range attrs {
		if a.Kind == "cond" || ((a.Kind == "expr" || a.Kind == "class") && a.Pad >= 2) {
			return true
		}
	}
	return false
}

func hasCondAttr(attrs []Attr) bool {
	for _, a := range attrs {
		if a.Kind == "cond" || ((a.Kind == "expr" || a.Kind == "class") && (a.Pad >= 2 || a.Lines)) {
			return true // these attributes span lines: the element cannot be a single-line one
		}
	}
	return false
}

func (p *printer) openTag(n *Node, ind int) {
	p.w("<" + n.Name)
	lines := n.L.AttrLines || needsAttrLines(n.Attrs)
	for i := range n.Attrs {
		if lines {
			p.w("\n")
			p.indent(ind + 1)
		} else {
			p.w(" ")
		}
		p.attr(&n.Attrs[i], ind+1, lines)
		if a := &n.Attrs[i]; a.Kind == "const" && a.Quote == "" && !lines && i == len(n.Attrs)-1 {
			// templ's unquoted-value parser consumes the terminating character, so a value directly
			// followed by ">" or "/>" is not accepted
			p.w(" ")
		}
	}
	if lines && len(n.Attrs) > 0 {
		p.w("\n")
		p.indent(ind)
	}
}

// nodes prints a sibling list. inline = inside a single-line element.
func (p *printer) nodes(ns []Node, ind int, inline bool) {
	atLineStart := !inline
	for i := range ns {
		n := &ns[i]
		if atLineStart {
			p.indent(ind)
		}
		p.node(n, ind)
		switch n.Sep {
		case "\n":
			p.w("\n")
			if n.L.Blank {
				p.w("\n")
			}
			atLineStart = true
		default:
			p.w(n.Sep)
			atLineStart = false
		}
	}
}

func (p *printer) node(n *Node, ind int) {
	switch n.Kind {
	case "text":
		if p.latin1 {
			p.w(toLatin1(n.Text))
		} else {
			p.w(n.Text)
		}
	case "expr":
		p.w("{" + pad(n.L.Pad))
		p.expr("string", p.src(n.E, n.L.ExprLines, ind))
		p.w(pad(n.L.Pad) + "}")
	case "element":
		p.openTag(n, ind)
		if n.Void {
			switch n.L.SelfClose {
			case 1:
				p.w(">")
			case 2:
				p.w(" />")
			case 3:
				p.w("></" + n.Name + ">")
			default:
				p.w("/>")
			}
			return
		}
		p.w(">")
		if len(n.Kids) == 0 {
			p.w("</" + n.Name + ">")
			return
		}
		if n.L.Inline {
			p.nodes(n.Kids, ind, true)
		} else {
			p.w("\n")
			p.nodes(n.Kids, ind+1, false)
			p.indent(ind)
		}
		p.w("</" + n.Name + ">")
	case "if":
		p.w("if ")
		p.expr("if", p.src(n.Cond, n.L.ExprLines, ind))
		p.w(" {\n")
		p.nodes(n.Kids, ind+1, false)
		for i := range n.ElseIfs {
			p.indent(ind)
			p.w("} else if ")
			p.expr("else if", p.src(&n.ElseIfs[i].Cond, false, ind))
			p.w(" {\n")
			p.nodes(n.ElseIfs[i].Kids, ind+1, false)
		}
		if n.HasElse {
			p.indent(ind)
			p.w("} else {\n")
			p.nodes(n.Else, ind+1, false)
		}
		p.indent(ind)
		p.w("}")
	case "for":
		p.w("for ")
		if n.ForKind == "range" {
			p.expr("for", "_, "+n.Var+" := range xs")
		} else {
			p.expr("for", n.Var+" := 0; "+n.Var+" < n; "+n.Var+"++")
		}
		p.w(" {\n")
		p.nodes(n.Kids, ind+1, false)
		p.indent(ind)
		p.w("}")
	case "switch":
		p.w("switch ")
		if n.E != nil {
			p.expr("switch", p.src(n.E, false, ind))
			p.w(" {\n")
		} else {
			// tagless: the expression is empty
			p.w("{\n")
		}
		for i := range n.Cases {
			c := &n.Cases[i]
			p.indent(ind + 1)
			if c.Default {
				p.expr("case", "default:")
			} else {
				var vs []string
				for j := range c.Vals {
					vs = append(vs, p.src(&c.Vals[j], false, ind))
				}
				p.expr("case", "case "+strings.Join(vs, ", ")+":")
			}
			p.w("\n")
			p.nodes(c.Kids, ind+2, false)
		}
		p.indent(ind)
		p.w("}")
	case "call":
		var target string
		switch {
		case n.Callee == "param":
			target = "c"
		case n.Callee == "card":
			target = "Card{Value: " + p.src(n.E, false, ind) + "}.View()"
		case n.Callee == "box":
			target = "Box[string]{Value: " + p.src(n.E, false, ind) + "}.View()"
		case n.Callee == "flush":
			target = "templ.Flush()"
		case n.Callee == "capture":
			target = "capture()"
		case n.Callee == "index0":
			target = "comps[0]"
		case n.Callee == "index1":
			target = "comps[1]"
		default:
			target = p.prefix + "T" + strings.TrimPrefix(n.Callee, "sub") + "(" + p.src(n.E, false, ind) + ", s2, b1, b2, n, xs, fail, c)"
		}
		if n.Legacy && !n.HasBlock {
			p.w("{! ")
			p.expr("call", target)
			p.w(" }")
			return
		}
		p.w("@")
		p.expr("call", target)
		if n.HasBlock {
			p.w(" {\n")
			p.nodes(n.Kids, ind+1, false)
			p.indent(ind)
			p.w("}")
		}
	case "children":
		p.w("{ children... }")
	case "gocode":
		p.w("{{ ")
		if n.E.Cmt {
			// a trailing line comment: the closing braces have to stay off its line
			p.expr("raw go", n.Var+" := "+p.src(n.E, false, ind)+" // kept for later")
			p.w("\n")
			p.indent(ind)
			p.w("}}")
			return
		}
		p.expr("raw go", n.Var+" := "+p.src(n.E, false, ind))
		p.w(" }}")
	case "htmlcomment":
		p.w("<!--" + n.Text + "-->")
	case "gocomment":
		if n.Multiline {
			p.w("/*" + n.Text + "*/")
		} else {
			p.w("//" + n.Text)
		}
	case "doctype":
		p.w("<!DOCTYPE html>")
	case "style", "script":
		// raw-text elements take attributes like any other element (n.Name is not set for them)
		tag := *n
		tag.Name = n.Kind
		p.openTag(&tag, ind)
		p.w(">" + n.Text + "</" + n.Kind + ">")
	default:
		panic("tgen: unknown node kind " + n.Kind)
	}
}

// Print returns the .templ source of the file (package main; template names prefix + "T<i>"), the
// position records of its Go expressions, and the imports it needs. Normalize must have been
// applied to the file.
// namedImports: name -> package path and a symbol of it (the printer writes a use of the symbol so
// that the import is not an unused one).
var namedImports = map[string][2]string{
	"tt":  {"github.com/a-h/templ", "EscapeString"},
	"rt":  {"github.com/a-h/templ/runtime", "GetBuffer"},
	"str": {"strings", "ToUpper"},
	"ht":  {"html", "EscapeString"},
}

func Print(f *File, prefix string) (string, []Record) {
	p := &printer{prefix: prefix, imports: map[string]bool{}, latin1: f.Latin1}
	// print the body first into a scratch printer to learn the imports
	scratch := &printer{prefix: prefix, imports: map[string]bool{}}
	for i := range f.Templates {
		scratch.nodes(f.Templates[i].Body, 1, false)
	}
	for _, x := range f.Extras {
		if x.Kind == "css" {
			for i := range x.Props {
				if x.Props[i].E != nil {
					scratch.src(x.Props[i].E, false, 1)
				}
			}
		}
	}
	p.imports = scratch.imports
	if f.Header != "" {
		p.expr("header", f.Header)
		p.w("\n")
	}
	p.expr("package", "package main")
	p.w("\n\n")
	var imps []string
	for k := range p.imports {
		imps = append(imps, k)
	}
	sort.Strings(imps)
	if len(imps)+len(f.NamedImports) > 0 {
		var sb strings.Builder
		sb.WriteString("import (\n")
		for _, k := range imps {
			sb.WriteString("\t" + strconv.Quote(k) + "\n")
		}
		var uses []string
		for _, ni := range f.NamedImports {
			if d, ok := namedImports[ni]; ok {
				sb.WriteString("\t" + ni + " " + strconv.Quote(d[0]) + "\n")
				uses = append(uses, "var _ = "+ni+"."+d[1])
			}
		}
		sb.WriteString(")")
		if len(uses) > 0 {
			sb.WriteString("\n\n" + strings.Join(uses, "\n"))
		}
		p.expr("go", sb.String())
		p.w("\n\n")
	}
	extras := func(after int) {
		for _, x := range f.Extras {
			if x.After != after {
				continue
			}
			switch x.Kind {
			case "go":
				p.expr("go", strings.ReplaceAll(x.Text, "PFX", prefix))
				p.w("\n\n")
			case "css":
				p.w("css ")
				p.expr("css signature", prefix+x.Name+"()")
				p.w(" {\n")
				for i := range x.Props {
					pr := &x.Props[i]
					if pr.E != nil {
						p.w("\t" + pr.Name + ": { ")
						p.expr("css value", p.src(pr.E, false, 1))
						p.w(" };\n")
					} else {
						p.w("\t" + pr.Name + ": " + pr.Val + ";\n")
					}
				}
				p.w("}\n\n")
			case "script":
				p.w("script ")
				p.expr("script name", prefix+x.Name)
				p.w("(")
				p.expr("script params", "a string, k int")
				p.w(") {\n" + x.Text + "\n}\n\n")
			}
		}
	}
	extras(-1)
	for i := range f.Templates {
		p.w("templ ")
		p.expr("signature", fmt.Sprintf("%sT%d(%s)", prefix, i, Params))
		p.w(" {\n")
		p.nodes(f.Templates[i].Body, 1, false)
		p.w("}\n")
		if i < len(f.Templates)-1 || hasExtraAfter(f, i) {
			p.w("\n")
		}
		extras(i)
	}
	return p.sb.String(), p.recs
}

func hasExtraAfter(f *File, i int) bool {
	for _, x := range f.Extras {
		if x.After == i {
			return true
		}
	}
	return false
}
