package tgen

// HelpersSource is the hand-written Go file that accompanies generated programs (package main).
const HelpersSource = `package main

import (
	"context"
	"errors"
	"fmt"
	"io"
	"strings"

	"github.com/a-h/templ"
)

var errBoom = errors.New("boom")

// Trace records tick() calls of the current render.
var Trace []string

func tick(id string) string {
	Trace = append(Trace, id)
	return ""
}

func strOrErr(s string, fail bool) (string, error) {
	if fail {
		return "", errBoom
	}
	return s, nil
}

// Card and Box are hand-written component providers: @Card{Value: s}.View() and
// @Box[string]{Value: s}.View() are component calls on (generic) struct literals.
type Card struct{ Value string }

func (c Card) View() templ.Component { return tagged("i", c.Value) }

type Box[T any] struct{ Value T }

func (b Box[T]) View() templ.Component { return tagged("b", fmt.Sprint(b.Value)) }

// capture renders the children it was given into a buffer of its own (as a component that
// post-processes them would) and writes the result between <u> tags.
func capture() templ.Component {
	return templ.ComponentFunc(func(ctx context.Context, w io.Writer) error {
		children := templ.GetChildren(ctx)
		ctx = templ.ClearChildren(ctx)
		var captured strings.Builder
		if err := children.Render(ctx, &captured); err != nil {
			return err
		}
		_, err := io.WriteString(w, "<u>"+captured.String()+"</u>")
		return err
	})
}

func tagged(tag, text string) templ.Component {
	return templ.ComponentFunc(func(ctx context.Context, w io.Writer) error {
		_, err := io.WriteString(w, "<"+tag+">"+templ.EscapeString(text)+"</"+tag+">")
		return err
	})
}

// comps is indexed by @comps[0] / @comps[1].
var comps = []templ.Component{tagged("em", "zero"), tagged("em", "one")}

// marker is the component passed as the c parameter.
var marker = templ.ComponentFunc(func(ctx context.Context, w io.Writer) error {
	_, err := io.WriteString(w, "<i>comp</i>")
	return err
})
`

// RunnerSource is the main program of a batch: it reads one JSON job per line from stdin and
// writes one JSON result per line, in order, on one goroutine (so consecutive jobs share templ's
// buffer pools). A job may inject one fault: a writer that fails at a byte offset, a cancelled
// context, a failing (string, error) call (args.fail) or a component parameter that fails after
// some bytes. roots is generated per batch.
const RunnerSource = `package main

import (
	"bufio"
	"bytes"
	"context"
	"encoding/base64"
	"encoding/json"
	"errors"
	"fmt"
	"io"
	"os"
	"path/filepath"
	"runtime"
	"strconv"
	"strings"
	"sync"
	"time"

	"github.com/a-h/templ"
	templruntime "github.com/a-h/templ/runtime"
)

type jobArgs struct {
	S1   string   ` + "`json:\"s1\"`" + `
	S2   string   ` + "`json:\"s2\"`" + `
	B1   bool     ` + "`json:\"b1\"`" + `
	B2   bool     ` + "`json:\"b2\"`" + `
	N    int      ` + "`json:\"n\"`" + `
	XS   []string ` + "`json:\"xs\"`" + `
	Fail bool     ` + "`json:\"fail\"`" + `
}

type job struct {
	K    int     ` + "`json:\"k\"`" + `
	Args jobArgs ` + "`json:\"args\"`" + `
	// WriterFailAt >= 0: the writer accepts that many bytes and then fails; Zero: the failing write
	// accepts nothing (instead of the part that still fits).
	WriterFailAt int  ` + "`json:\"writer_fail_at\"`" + `
	Zero         bool ` + "`json:\"zero\"`" + `
	Cancelled    bool ` + "`json:\"cancelled\"`" + `
	// CompFailAfter >= 0: the component parameter writes that many bytes of its marker, then fails.
	CompFailAfter int ` + "`json:\"comp_fail_after\"`" + `
	Chunk         int ` + "`json:\"chunk\"`" + ` // > 0: the writer accepts at most that many bytes per Write call
	// Bufio 1..3: render into the caller's own long-lived *bufio.Writer number Bufio (sizes 4096,
	// 8192, 4096), which is flushed after the render; Out is what reached its sink during this job.
	Bufio int ` + "`json:\"bufio\"`" + `
	// GC: run two garbage collections first, which empties sync.Pools.
	GC bool ` + "`json:\"gc\"`" + `
	// ToGoHTML: render with templ.ToGoHTML (the root package's pooled bytes.Buffer) instead of
	// Render into a writer; Out is the returned HTML.
	ToGoHTML bool ` + "`json:\"to_go_html\"`" + `
	// Overlap: see runOverlap.
	Overlap bool ` + "`json:\"overlap\"`" + `
	// B64: s1, s2 and xs are base64 (JSON cannot carry invalid UTF-8 or NUL-free guarantees).
	B64 bool ` + "`json:\"b64\"`" + `
	// RuntimeBuf: the caller took a buffer from templ's runtime (templruntime.GetBuffer) around the
	// destination, as code that controls flushing itself does, and hands that to Render.
	RuntimeBuf bool ` + "`json:\"runtime_buf\"`" + `
}

func unb64(s string) string {
	b, err := base64.StdEncoding.DecodeString(s)
	if err != nil {
		panic("bad base64 argument: " + err.Error())
	}
	return string(b)
}

type bufSlot struct {
	sink bytes.Buffer
	bw   *bufio.Writer
}

var bufSlots = map[int]*bufSlot{}

func slotFor(n int) *bufSlot {
	if s, ok := bufSlots[n]; ok {
		return s
	}
	s := &bufSlot{}
	size := 4096
	if n == 2 {
		size = 8192
	}
	s.bw = bufio.NewWriterSize(&s.sink, size)
	bufSlots[n] = s
	return s
}

type result struct {
	Out           []byte   ` + "`json:\"out\"`" + `
	Out2          []byte   ` + "`json:\"out2\"`" + `
	Ref1          []byte   ` + "`json:\"ref1\"`" + `
	Ref2          []byte   ` + "`json:\"ref2\"`" + `
	Err           string   ` + "`json:\"err\"`" + `
	Boom          bool     ` + "`json:\"boom\"`" + `
	WriterErr     bool     ` + "`json:\"writer_err\"`" + `
	CompErr       bool     ` + "`json:\"comp_err\"`" + `
	Canceled      bool     ` + "`json:\"canceled\"`" + `
	Trace         []string ` + "`json:\"trace\"`" + `
	ErrFile       string   ` + "`json:\"err_file\"`" + `
	ErrLine       int      ` + "`json:\"err_line\"`" + `
	HasTemplError bool     ` + "`json:\"has_templ_error\"`" + `
	Writes        int      ` + "`json:\"writes\"`" + `
}

var errWriter = errors.New("writer failed deliberately")
var errComp = errors.New("component failed deliberately")

type faultWriter struct {
	buf    bytes.Buffer
	failAt int
	zero   bool
	failed bool
	writes int
}

func (w *faultWriter) Write(p []byte) (int, error) {
	w.writes++
	if w.failed {
		return 0, errWriter
	}
	if w.failAt >= 0 && w.buf.Len()+len(p) > w.failAt {
		n := w.failAt - w.buf.Len()
		if w.zero {
			n = 0
		}
		w.buf.Write(p[:n])
		w.failed = true
		return n, errWriter
	}
	return w.buf.Write(p)
}

// gateWriter parks its first Write (a slow client) until released; the bytes are taken only then.
type gateWriter struct {
	buf     bytes.Buffer
	entered chan struct{}
	release chan struct{}
	once    sync.Once
}

func (g *gateWriter) Write(p []byte) (int, error) {
	g.once.Do(func() {
		close(g.entered)
		<-g.release
	})
	return g.buf.Write(p)
}

// runOverlap renders the job's program twice on one processor: the first render is parked inside
// its writer's first Write (for documents below templ's buffer size that is the final flush),
// the second runs to completion meanwhile. Out is what the parked writer received in the end,
// Out2 what the second writer received. Programs that use tick() share its trace: not for them.
func runOverlap(j job) (r result) {
	defer runtime.GOMAXPROCS(runtime.GOMAXPROCS(1))
	a := j.Args
	// the second render gets other arguments, so that the two documents differ
	a2 := a
	a2.S1, a2.S2, a2.B1, a2.N = "second-"+a.S2, "render-"+a.S1, !a.B1, a.N+1
	mk := func() templ.Component { return roots[j.K](a.S1, a.S2, a.B1, a.B2, a.N, a.XS, a.Fail, marker) }
	mk2 := func() templ.Component { return roots[j.K](a2.S1, a2.S2, a2.B1, a2.B2, a2.N, a2.XS, a2.Fail, marker) }
	// what each of them writes when it runs alone
	var ref1, ref2 bytes.Buffer
	if err := mk().Render(context.Background(), &ref1); err != nil {
		r.Err = "first render alone: " + err.Error()
		return r
	}
	if err := mk2().Render(context.Background(), &ref2); err != nil {
		r.Err = "second render alone: " + err.Error()
		return r
	}
	r.Ref1, r.Ref2 = ref1.Bytes(), ref2.Bytes()
	gw := &gateWriter{entered: make(chan struct{}), release: make(chan struct{})}
	done := make(chan error, 1)
	go func() {
		defer func() {
			if x := recover(); x != nil {
				done <- fmt.Errorf("panic: %v", x)
			}
		}()
		done <- mk().Render(context.Background(), gw)
	}()
	var err1 error
	finished := false
	select {
	case <-gw.entered:
	case err1 = <-done:
		finished = true
	}
	var second bytes.Buffer
	err2 := func() (err error) {
		defer func() {
			if x := recover(); x != nil {
				err = fmt.Errorf("panic: %v", x)
			}
		}()
		return mk2().Render(context.Background(), &second)
	}()
	if !finished {
		close(gw.release)
		err1 = <-done
	}
	r.Out, r.Out2 = gw.buf.Bytes(), second.Bytes()
	if err1 != nil {
		r.Err = "parked render: " + err1.Error()
	} else if err2 != nil {
		r.Err = "second render: " + err2.Error()
	}
	return r
}

func failingMarker(after int) templ.Component {
	return templ.ComponentFunc(func(ctx context.Context, w io.Writer) error {
		const m = "<i>comp</i>"
		if after > len(m) {
			after = len(m)
		}
		if _, err := io.WriteString(w, m[:after]); err != nil {
			return err
		}
		return errComp
	})
}

func runJob(j job, parallel bool) (r result) {
	w := &faultWriter{failAt: j.WriterFailAt, zero: j.Zero}
	var dst io.Writer = w
	var slot *bufSlot
	before := 0
	if j.GC {
		runtime.GC()
		runtime.GC()
	}
	if j.Bufio > 0 && !parallel {
		slot = slotFor(j.Bufio)
		before = slot.sink.Len()
		dst = slot.bw
	}
	if !parallel {
		Trace = nil
	}
	func() {
		defer func() {
			if x := recover(); x != nil {
				r.Err = fmt.Sprintf("panic: %v", x)
			}
		}()
		a := j.Args
		if j.B64 {
			a.S1, a.S2 = unb64(a.S1), unb64(a.S2)
			xs := make([]string, len(a.XS))
			for i, x := range a.XS {
				xs[i] = unb64(x)
			}
			a.XS = xs
		}
		var comp templ.Component = marker
		if j.CompFailAfter >= 0 {
			comp = failingMarker(j.CompFailAfter)
		}
		ctx := context.Background()
		if j.Cancelled {
			c, cancel := context.WithCancel(ctx)
			cancel()
			ctx = c
		}
		c := roots[j.K](a.S1, a.S2, a.B1, a.B2, a.N, a.XS, a.Fail, comp)
		render := func() error { return c.Render(ctx, dst) }
		if j.RuntimeBuf {
			render = func() error {
				b, existing := templruntime.GetBuffer(dst)
				err := c.Render(ctx, b)
				if !existing {
					if ferr := templruntime.ReleaseBuffer(b); err == nil {
						err = ferr
					}
				}
				return err
			}
		}
		if j.ToGoHTML {
			render = func() error {
				h, err := templ.ToGoHTML(ctx, c)
				w.buf.WriteString(string(h))
				return err
			}
		}
		if err := render(); err != nil {
			r.Err = err.Error()
			r.Boom = errors.Is(err, errBoom)
			r.WriterErr = errors.Is(err, errWriter)
			r.CompErr = errors.Is(err, errComp)
			r.Canceled = errors.Is(err, context.Canceled)
			var te templ.Error
			if errors.As(err, &te) {
				r.HasTemplError = true
				r.ErrFile, r.ErrLine = te.FileName, te.Line
			}
		}
	}()
	r.Out = w.buf.Bytes()
	if slot != nil {
		if err := slot.bw.Flush(); err != nil && r.Err == "" {
			r.Err = "flush of the caller's bufio.Writer: " + err.Error()
		}
		r.Out = append([]byte(nil), slot.sink.Bytes()[before:]...)
	}
	if !parallel {
		r.Trace = Trace
	}
	r.Writes = w.writes
	return r
}

func main() {
	sc := bufio.NewScanner(os.Stdin)
	sc.Buffer(make([]byte, 1<<20), 1<<26)
	enc := json.NewEncoder(os.Stdout)
	var jobs []job
	for sc.Scan() {
		j := job{WriterFailAt: -1, CompFailAfter: -1}
		if err := json.Unmarshal(sc.Bytes(), &j); err != nil {
			fmt.Fprintln(os.Stderr, "bad job:", err)
			os.Exit(3)
		}
		jobs = append(jobs, j)
	}
	// VERIF_PARALLEL=N: the jobs are rendered by N goroutines at the same time (programs must not use
	// tick(), whose trace is a package variable); results are still reported in job order.
	n, _ := strconv.Atoi(os.Getenv("VERIF_PARALLEL"))
	if n <= 1 {
		for _, j := range jobs {
			if j.Overlap {
				_ = enc.Encode(runOverlap(j))
				continue
			}
			_ = enc.Encode(runJob(j, false))
		}
		return
	}
	// VERIF_MIN_MS=T: every goroutine keeps re-rendering its jobs until T ms have passed; a later
	// render of a job that differs from its first one is reported in the job's error.
	// VERIF_TOUCH_MS=k: meanwhile every development text file (templ_*.txt under
	// TEMPL_DEV_MODE_ROOT) is replaced every k ms by a new file with the same content (temporary
	// file + rename, so a reader sees one complete file or the other), which is what
	// "templ generate --watch" does to the file's modification time after an edit.
	minMs, _ := strconv.Atoi(os.Getenv("VERIF_MIN_MS"))
	touchMs, _ := strconv.Atoi(os.Getenv("VERIF_TOUCH_MS"))
	deadline := time.Now().Add(time.Duration(minMs) * time.Millisecond)
	stopTouch := make(chan struct{})
	var touchWG sync.WaitGroup
	if touchMs > 0 && os.Getenv("TEMPL_DEV_MODE_ROOT") != "" {
		touchWG.Add(1)
		go func() {
			defer touchWG.Done()
			root := os.Getenv("TEMPL_DEV_MODE_ROOT")
			for k := 0; ; k++ {
				select {
				case <-stopTouch:
					return
				case <-time.After(time.Duration(touchMs) * time.Millisecond):
				}
				names, _ := filepath.Glob(filepath.Join(root, "templ_*.txt"))
				for _, name := range names {
					b, err := os.ReadFile(name)
					if err != nil {
						continue
					}
					tmp := filepath.Join(root, fmt.Sprintf("touch-%d.tmp", k))
					if os.WriteFile(tmp, b, 0o644) == nil {
						_ = os.Rename(tmp, name)
					}
				}
			}
		}()
	}
	results := make([]result, len(jobs))
	var wg sync.WaitGroup
	for g := 0; g < n; g++ {
		wg.Add(1)
		go func(g int) {
			defer wg.Done()
			for i := g; i < len(jobs); i += n {
				results[i] = runJob(jobs[i], true)
			}
			for round := 2; time.Now().Before(deadline); round++ {
				for i := g; i < len(jobs); i += n {
					r := runJob(jobs[i], true)
					if (r.Err != results[i].Err || !bytes.Equal(r.Out, results[i].Out)) && !strings.HasPrefix(results[i].Err, "unstable") {
						results[i].Err = fmt.Sprintf("unstable: render %d of this job gave %q (error %q), the first gave %q (error %q)", round, r.Out, r.Err, results[i].Out, results[i].Err)
					}
				}
			}
		}(g)
	}
	wg.Wait()
	close(stopTouch)
	touchWG.Wait()
	for _, r := range results {
		_ = enc.Encode(r)
	}
}
`
