package tgen

// HelpersSource is the hand-written Go file that accompanies generated programs (package main).
const HelpersSource = `package main

import (
	"context"
	"errors"
	"fmt"
	"io"

	"github.com/a-h/templ"
)

var errBoom = errors.New("boom")

// Trace records tick() calls of the current render.
var Trace []string

func tick(id string) string {
	Trace = append(Trace, id)
	return ""
}

func strOrErr(s string, fail bool) (string, error) {
	if fail {
		return "", errBoom
	}
	return s, nil
}

// Card and Box are hand-written component providers: @Card{Value: s}.View() and
// @Box[string]{Value: s}.View() are component calls on (generic) struct literals.
type Card struct{ Value string }

func (c Card) View() templ.Component { return tagged("i", c.Value) }

type Box[T any] struct{ Value T }

func (b Box[T]) View() templ.Component { return tagged("b", fmt.Sprint(b.Value)) }

func tagged(tag, text string) templ.Component {
	return templ.ComponentFunc(func(ctx context.Context, w io.Writer) error {
		_, err := io.WriteString(w, "<"+tag+">"+templ.EscapeString(text)+"</"+tag+">")
		return err
	})
}

// comps is indexed by @comps[0] / @comps[1].
var comps = []templ.Component{tagged("em", "zero"), tagged("em", "one")}

// marker is the component passed as the c parameter.
var marker = templ.ComponentFunc(func(ctx context.Context, w io.Writer) error {
	_, err := io.WriteString(w, "<i>comp</i>")
	return err
})
`

// RunnerSource is the main program of a batch: it reads one JSON job per line from stdin and
// writes one JSON result per line. roots is generated per batch.
const RunnerSource = `package main

import (
	"bufio"
	"bytes"
	"context"
	"encoding/json"
	"errors"
	"fmt"
	"os"

	"github.com/a-h/templ"
)

type jobArgs struct {
	S1   string   ` + "`json:\"s1\"`" + `
	S2   string   ` + "`json:\"s2\"`" + `
	B1   bool     ` + "`json:\"b1\"`" + `
	B2   bool     ` + "`json:\"b2\"`" + `
	N    int      ` + "`json:\"n\"`" + `
	XS   []string ` + "`json:\"xs\"`" + `
	Fail bool     ` + "`json:\"fail\"`" + `
}

type job struct {
	K    int     ` + "`json:\"k\"`" + `
	Args jobArgs ` + "`json:\"args\"`" + `
}

type result struct {
	Out      []byte   ` + "`json:\"out\"`" + `
	Err      string   ` + "`json:\"err\"`" + `
	Boom     bool     ` + "`json:\"boom\"`" + `
	Trace    []string ` + "`json:\"trace\"`" + `
	ErrFile  string   ` + "`json:\"err_file\"`" + `
	ErrLine  int      ` + "`json:\"err_line\"`" + `
	HasTemplError bool ` + "`json:\"has_templ_error\"`" + `
}

func main() {
	sc := bufio.NewScanner(os.Stdin)
	sc.Buffer(make([]byte, 1<<20), 1<<26)
	enc := json.NewEncoder(os.Stdout)
	for sc.Scan() {
		var j job
		if err := json.Unmarshal(sc.Bytes(), &j); err != nil {
			fmt.Fprintln(os.Stderr, "bad job:", err)
			os.Exit(3)
		}
		var buf bytes.Buffer
		var r result
		Trace = nil
		func() {
			defer func() {
				if x := recover(); x != nil {
					r.Err = fmt.Sprintf("panic: %v", x)
				}
			}()
			a := j.Args
			c := roots[j.K](a.S1, a.S2, a.B1, a.B2, a.N, a.XS, a.Fail, marker)
			if err := c.Render(context.Background(), &buf); err != nil {
				r.Err = err.Error()
				r.Boom = errors.Is(err, errBoom)
				var te templ.Error
				if errors.As(err, &te) {
					r.HasTemplError = true
					r.ErrFile, r.ErrLine = te.FileName, te.Line
				}
			}
		}()
		r.Out = buf.Bytes()
		r.Trace = Trace
		_ = enc.Encode(r)
	}
}
`
