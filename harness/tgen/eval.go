package tgen

import (
	"fmt"
	"html"
	"regexp"
	"strconv"
	"strings"
)

// ---------- normalisation ----------

var textKeywords = []string{"if ", "for ", "switch ", "case ", "case\t", "default", "else", "@", "//", "/*", "templ ", "css ", "script ", "package "}

// FixText makes s a valid templ text node: one line, no markup or templ metacharacters, no
// leading/trailing whitespace, not starting like a statement.
func FixText(s string) string {
	s = strings.Map(func(r rune) rune {
		switch r {
		case '<', '>', '{', '}', '\n', '\r', '\x00', '`':
			return -1
		}
		return r
	}, s)
	s = strings.TrimSpace(s)
	for changed := true; changed; {
		changed = false
		for _, k := range textKeywords {
			if strings.HasPrefix(s, k) || s+" " == k {
				s = "x" + s
				changed = true
			}
		}
	}
	if s == "" {
		s = "t"
	}
	return s
}

func inlineCapable(n *Node) bool {
	switch n.Kind {
	case "text", "expr":
		return !n.L.ExprLines
	case "element":
		if n.L.AttrLines || hasCondAttr(n.Attrs) {
			return false
		}
		return n.Void || len(n.Kids) == 0 || n.L.Inline
	}
	return false
}

func ownLine(n *Node) bool {
	switch n.Kind {
	case "text":
		return false
	case "expr":
		return n.L.ExprLines
	case "element":
		return !inlineCapable(n)
	}
	return true
}

func normList(ns []Node, inline bool) {
	for i := range ns {
		n := &ns[i]
		normNode(n)
	}
	for i := range ns {
		n := &ns[i]
		last := i == len(ns)-1
		if inline {
			if n.Sep == "\n" {
				n.Sep = " "
			}
			if last {
				n.Sep = ""
			}
			n.L.Blank = false
			continue
		}
		if last || ownLine(n) || (!last && ownLine(&ns[i+1])) {
			n.Sep = "\n"
		}
		if n.Sep != "\n" {
			n.L.Blank = false
		}
	}
}

func normNode(n *Node) {
	switch n.Kind {
	case "text":
		n.Text = FixText(n.Text)
	case "element":
		if n.Void {
			n.Kids = nil
		}
		if n.L.Inline {
			for i := range n.Kids {
				normNode(&n.Kids[i])
			}
			for i := range n.Kids {
				if !inlineCapable(&n.Kids[i]) {
					n.L.Inline = false
				}
			}
			if n.L.AttrLines || hasCondAttr(n.Attrs) {
				n.L.Inline = false
			}
		}
		normList(n.Kids, n.L.Inline)
	case "if":
		// templ rejects control flow with an empty body
		n.Kids = nonEmpty(n.Kids)
		normList(n.Kids, false)
		for i := range n.ElseIfs {
			n.ElseIfs[i].Kids = nonEmpty(n.ElseIfs[i].Kids)
			normList(n.ElseIfs[i].Kids, false)
		}
		if n.HasElse {
			n.Else = nonEmpty(n.Else)
			normList(n.Else, false)
		}
	case "for":
		n.Kids = nonEmpty(n.Kids)
		normList(n.Kids, false)
	case "switch":
		if len(n.Cases) == 0 {
			n.Cases = []Case{{Default: true}}
		}
		for i := range n.Cases {
			n.Cases[i].Kids = nonEmpty(n.Cases[i].Kids)
			normList(n.Cases[i].Kids, false)
		}
	case "call":
		if n.HasBlock {
			if len(n.Kids) == 0 {
				n.Kids = []Node{{Kind: "text", Text: "blk"}}
			}
			normList(n.Kids, false)
		} else {
			n.Kids = nil
		}
	}
}

func nonEmpty(ns []Node) []Node {
	if len(ns) == 0 {
		return []Node{{Kind: "text", Text: "e", Sep: "\n"}}
	}
	return ns
}

// Normalize makes the layout choices of the file consistent with templ's syntax (statements start
// and end lines, single-line elements hold only inline content, ...). Idempotent.
func Normalize(f *File) {
	for i := range f.Templates {
		normList(f.Templates[i].Body, false)
	}
}

// ---------- expression evaluation ----------

type env struct {
	a      Args
	svars  map[string]string
	ivars  map[string]int
	trace  *[]string
	failed *bool
}

// ErrBoom is the error strOrErr returns when Args.Fail is set.
var ErrBoom = fmt.Errorf("boom")

type evalError struct{ expr *Expr }

func (e *env) str(x *Expr) string {
	switch x.Kind {
	case "var":
		switch x.Str {
		case "s1":
			return e.a.S1
		case "s2":
			return e.a.S2
		}
		if v, ok := e.svars[x.Str]; ok {
			return v
		}
		panic("tgen: unbound string variable " + x.Str)
	case "strlit":
		return x.Str
	case "concat":
		return e.str(&x.Args[0]) + e.str(&x.Args[1])
	case "sprintf":
		var args []any
		for i := range x.Args {
			switch x.Args[i].Kind {
			case "ivar", "intlit", "len", "plus":
				args = append(args, e.num(&x.Args[i]))
			default:
				args = append(args, e.str(&x.Args[i]))
			}
		}
		return fmt.Sprintf(x.Fmt, args...)
	case "upper":
		return strings.ToUpper(e.str(&x.Args[0]))
	case "itoa":
		return strconv.Itoa(e.num(&x.Args[0]))
	case "orerr":
		v := e.str(&x.Args[0])
		if e.a.Fail {
			panic(evalError{x})
		}
		return v
	case "tick":
		*e.trace = append(*e.trace, x.Str)
		return ""
	}
	panic("tgen: not a string expression: " + x.Kind)
}

func (e *env) num(x *Expr) int {
	switch x.Kind {
	case "ivar":
		if x.Str == "n" {
			return e.a.N
		}
		if v, ok := e.ivars[x.Str]; ok {
			return v
		}
		panic("tgen: unbound int variable " + x.Str)
	case "intlit":
		return x.Num
	case "len":
		return len(e.a.XS)
	case "plus":
		return e.num(&x.Args[0]) + e.num(&x.Args[1])
	}
	panic("tgen: not an int expression: " + x.Kind)
}

func (e *env) boolean(x *Expr) bool {
	switch x.Kind {
	case "bvar":
		if x.Str == "b1" {
			return e.a.B1
		}
		return e.a.B2
	case "true":
		return true
	case "false":
		return false
	case "not":
		return !e.boolean(&x.Args[0])
	case "eq":
		return e.str(&x.Args[0]) == e.str(&x.Args[1])
	case "gt":
		return e.num(&x.Args[0]) > e.num(&x.Args[1])
	case "and":
		return e.boolean(&x.Args[0]) && e.boolean(&x.Args[1])
	case "or":
		return e.boolean(&x.Args[0]) || e.boolean(&x.Args[1])
	case "nonempty":
		return len(e.a.XS) > 0
	}
	panic("tgen: not a bool expression: " + x.Kind)
}

// ---------- denotation ----------

type evKind int

const (
	evAtom evKind = iota
	evWS
	evJoint
	evBarrier
)

type event struct {
	kind        evKind
	canon       string
	inlineStart bool
	inlineEnd   bool
	wild        bool
	markup      bool
}

// Gap between two consecutive atoms of the denoted document.
type Gap int

const (
	GapNone Gap = iota // no whitespace may appear
	GapMay             // whitespace may appear (the source has some)
	GapMust            // whitespace must appear (adjacent inline content separated in the source)
)

// Atom is one piece of the denoted document in canonical form: text atoms are their decoded
// characters; tags, comments and the doctype are wrapped in \x00 ... \x01.
type Atom struct {
	Canon string
	Gap   Gap  // gap before this atom
	Wild  bool // any text (script bodies with expressions)
	// Markup: the atom is a tag, comment or doctype (its Canon is wrapped in \x00 ... \x01); text
	// atoms may hold any bytes, including those two.
	Markup bool
}

// Tag decodes a markup atom: kind is "start", "end", "comment" or "doctype" ("" for text atoms);
// attrs are the (name, decoded value) pairs of a start tag in source order.
func (a Atom) Tag() (kind, name string, attrs [][2]string) {
	if !a.Markup {
		return "", "", nil
	}
	c := strings.TrimSuffix(strings.TrimPrefix(a.Canon, "\x00"), "\x01")
	switch {
	case strings.HasPrefix(c, "</"):
		return "end", strings.TrimSuffix(c[2:], ">"), nil
	case strings.HasPrefix(c, "<!--"):
		return "comment", "", nil
	case strings.HasPrefix(c, "<!doctype"):
		return "doctype", "", nil
	}
	c = strings.TrimSuffix(strings.TrimPrefix(c, "<"), ">")
	i := strings.IndexByte(c, ' ')
	if i < 0 {
		return "start", c, nil
	}
	name, rest := c[:i], c[i:]
	for rest != "" {
		rest = strings.TrimPrefix(rest, " ")
		eq := strings.IndexByte(rest, '=')
		if eq < 0 {
			break
		}
		q, err := strconv.QuotedPrefix(rest[eq+1:])
		if err != nil {
			break
		}
		v, _ := strconv.Unquote(q)
		attrs = append(attrs, [2]string{rest[:eq], v})
		rest = rest[eq+1+len(q):]
	}
	return "start", name, attrs
}

// Denotation of a program for given arguments.
type Denotation struct {
	Atoms []Atom
	Trace []string
	// Err: rendering must fail with an error wrapping ErrBoom, raised by ErrExpr.
	Err     bool
	ErrExpr string
	// MustPairs counts the gaps where whitespace is required (generator health).
	MustPairs int
}

var inlineElems = map[string]bool{"a": true, "abbr": true, "b": true, "button": true, "code": true, "em": true, "i": true, "label": true, "small": true,
	"span": true, "strong": true, "u": true, "x-item": true, "img": true, "input": true}

func tagCanon(name string, attrs [][2]string) string {
	var sb strings.Builder
	sb.WriteString("\x00<" + name)
	for _, a := range attrs {
		sb.WriteString(" " + a[0] + "=" + strconv.Quote(a[1]))
	}
	sb.WriteString(">\x01")
	return sb.String()
}

type evaluator struct {
	f        *File
	evs      []event
	trace    []string
	depth    int
	children *closure
}

func (ev *evaluator) atom(canon string, is, ie bool) {
	ev.evs = append(ev.evs, event{kind: evAtom, canon: canon, inlineStart: is, inlineEnd: ie})
}

// matom records a markup atom (tag, comment, doctype).
func (ev *evaluator) matom(canon string, is, ie bool) {
	ev.evs = append(ev.evs, event{kind: evAtom, canon: canon, inlineStart: is, inlineEnd: ie, markup: true})
}
func (ev *evaluator) mark(k evKind) { ev.evs = append(ev.evs, event{kind: k}) }

func (ev *evaluator) sep(s string) {
	if s != "" {
		ev.mark(evWS)
	}
}

func (ev *evaluator) attrs(e *env, as []Attr, out *[][2]string) {
	for i := range as {
		a := &as[i]
		switch a.Kind {
		case "const":
			*out = append(*out, [2]string{a.Name, html.UnescapeString(a.Val)})
		case "boolconst":
			*out = append(*out, [2]string{a.Name, ""})
		case "expr":
			*out = append(*out, [2]string{a.Name, e.str(a.E)})
		case "boolexpr":
			if e.boolean(a.Cond) {
				*out = append(*out, [2]string{a.Name, ""})
			}
		case "href":
			*out = append(*out, [2]string{a.Name, e.str(a.E)})
		case "class":
			enabled := map[string]bool{}
			var order []string
			for j := range a.Items {
				it := &a.Items[j]
				name := e.str(it.E)
				on := true
				if it.Kind == "kv" {
					on = e.boolean(it.Cond)
				}
				enabled[name] = on
				order = append(order, name)
			}
			seen := map[string]bool{}
			var names []string
			for _, n := range order {
				if enabled[n] && !seen[n] {
					seen[n] = true
					names = append(names, n)
				}
			}
			*out = append(*out, [2]string{"class", strings.Join(names, " ")})
		case "cond":
			if e.boolean(a.Cond) {
				ev.attrs(e, a.Then, out)
			} else if a.HasElse {
				ev.attrs(e, a.Else, out)
			}
		}
	}
}

func (ev *evaluator) list(e *env, ns []Node, blockLayout bool) {
	if blockLayout {
		ev.mark(evWS) // the line break after the opening syntax
	}
	for i := range ns {
		ev.node(e, &ns[i])
		ev.sep(ns[i].Sep)
	}
}

func (ev *evaluator) node(e *env, n *Node) {
	switch n.Kind {
	case "text":
		ev.atom(html.UnescapeString(n.Text), true, true)
	case "expr":
		ev.atom(e.str(n.E), true, true)
	case "element":
		var as [][2]string
		ev.attrs(e, n.Attrs, &as)
		inl := inlineElems[n.Name]
		ev.matom(tagCanon(n.Name, as), inl, inl && n.Void)
		if n.Void {
			return
		}
		ev.mark(evBarrier)
		ev.list(e, n.Kids, !n.L.Inline && len(n.Kids) > 0)
		ev.mark(evBarrier)
		ev.matom("\x00</"+n.Name+">\x01", false, inl)
	case "if":
		ev.mark(evJoint)
		switch {
		case e.boolean(n.Cond):
			ev.list(e, n.Kids, true)
		default:
			taken := false
			for i := range n.ElseIfs {
				if e.boolean(&n.ElseIfs[i].Cond) {
					ev.list(e, n.ElseIfs[i].Kids, true)
					taken = true
					break
				}
			}
			if !taken && n.HasElse {
				ev.list(e, n.Else, true)
			}
		}
		ev.mark(evJoint)
	case "for":
		count := len(e.a.XS)
		if n.ForKind == "count" {
			count = e.a.N
		}
		ev.mark(evJoint)
		for i := 0; i < count; i++ {
			if i > 0 {
				ev.mark(evBarrier)
			}
			if n.ForKind == "range" {
				e.svars[n.Var] = e.a.XS[i]
			} else {
				e.ivars[n.Var] = i
			}
			ev.list(e, n.Kids, true)
		}
		delete(e.svars, n.Var)
		delete(e.ivars, n.Var)
		ev.mark(evJoint)
	case "switch":
		ev.mark(evJoint)
		var chosen *Case
		if n.E != nil {
			tag := e.str(n.E)
		outer:
			for i := range n.Cases {
				c := &n.Cases[i]
				for j := range c.Vals {
					if !c.Default && e.str(&c.Vals[j]) == tag {
						chosen = c
						break outer
					}
				}
			}
		} else {
		outer2:
			for i := range n.Cases {
				c := &n.Cases[i]
				for j := range c.Vals {
					if !c.Default && e.boolean(&c.Vals[j]) {
						chosen = c
						break outer2
					}
				}
			}
		}
		if chosen == nil {
			for i := range n.Cases {
				if n.Cases[i].Default {
					chosen = &n.Cases[i]
				}
			}
		}
		if chosen != nil {
			ev.list(e, chosen.Kids, true)
		}
		ev.mark(evJoint)
	case "call":
		ev.mark(evBarrier)
		simple := func(tag, text string) {
			ev.matom(tagCanon(tag, nil), false, false)
			if text != "" {
				ev.atom(text, false, false)
			}
			ev.matom("\x00</"+tag+">\x01", false, false)
		}
		switch n.Callee {
		case "param":
			// the component parameter renders a marker and ignores children
			simple("i", "comp")
		case "card":
			simple("i", e.str(n.E))
		case "box":
			simple("b", e.str(n.E))
		case "capture":
			// the block, rendered in the caller's scope, between the component's own tags
			ev.matom(tagCanon("u", nil), true, false)
			ev.mark(evBarrier)
			ev.list(e, n.Kids, true)
			ev.mark(evBarrier)
			ev.matom("\x00</u>\x01", false, true)
		case "flush":
			// the block is rendered where the call stands, in the caller's scope ({ children... }
			// inside it are the enclosing template's children)
			ev.list(e, n.Kids, true)
		case "index0":
			simple("em", "zero")
		case "index1":
			simple("em", "one")
		default:
			idx, _ := strconv.Atoi(strings.TrimPrefix(n.Callee, "sub"))
			sub := &env{a: e.a, svars: map[string]string{}, ivars: map[string]int{}, trace: e.trace}
			sub.a.S1 = e.str(n.E)
			var blk *closure
			if n.HasBlock {
				blk = &closure{kids: n.Kids, env: e, children: ev.children}
			}
			saved := ev.children
			ev.children = blk
			ev.depth++
			if ev.depth > 20 {
				panic("tgen: call depth")
			}
			ev.list(sub, ev.f.Templates[idx].Body, true)
			ev.depth--
			ev.children = saved
		}
		ev.mark(evBarrier)
	case "children":
		ev.mark(evBarrier)
		if c := ev.children; c != nil {
			saved := ev.children
			ev.children = c.children
			ev.list(c.env, c.kids, true)
			ev.children = saved
		}
		ev.mark(evBarrier)
	case "gocode":
		ev.mark(evBarrier)
		e.svars[n.Var] = e.str(n.E)
	case "gocomment":
		ev.mark(evBarrier)
	case "htmlcomment":
		ev.matom("\x00<!--"+n.Text+"-->\x01", false, false)
		ev.mark(evBarrier)
	case "doctype":
		ev.matom("\x00<!doctype html>\x01", false, false)
		ev.mark(evBarrier)
	case "style":
		var sas [][2]string
		ev.attrs(e, n.Attrs, &sas)
		ev.matom(tagCanon("style", sas), false, false)
		if n.Text != "" {
			ev.atom(n.Text, false, false)
		}
		ev.matom("\x00</style>\x01", false, false)
		ev.mark(evBarrier)
	case "script":
		var sas [][2]string
		ev.attrs(e, n.Attrs, &sas)
		ev.matom(tagCanon("script", sas), false, false)
		if strings.Contains(n.Text, "{{") {
			ev.evs = append(ev.evs, event{kind: evAtom, wild: true}) // a script with Go values: any text
		} else if n.Text != "" {
			ev.atom(n.Text, false, false)
		}
		ev.matom("\x00</script>\x01", false, false)
		ev.mark(evBarrier)
	}
}

type closure struct {
	kids     []Node
	env      *env
	children *closure // the children visible inside the block (those of the template the block was written in)
}

// Eval computes what template 0 of the (normalised) file denotes for the arguments.
func Eval(f *File, a Args) (d Denotation) {
	ev := &evaluator{f: f}
	e := &env{a: a, svars: map[string]string{}, ivars: map[string]int{}, trace: &ev.trace}
	func() {
		defer func() {
			if x := recover(); x != nil {
				if ee, ok := x.(evalError); ok {
					d.Err = true
					p := &printer{imports: map[string]bool{}}
					d.ErrExpr = p.src(ee.expr, false, 0)
					return
				}
				panic(x)
			}
		}()
		ev.list(e, f.Templates[0].Body, true)
	}()
	d.Trace = ev.trace
	// events -> atoms with gaps
	var prev *event
	ws, barrier := false, false
	segWS := true // every segment between joints so far holds whitespace
	curSegWS := false
	for i := range ev.evs {
		x := &ev.evs[i]
		switch x.kind {
		case evWS:
			ws = true
			curSegWS = true
		case evJoint:
			if !curSegWS {
				segWS = false
			}
			curSegWS = false
		case evBarrier:
			barrier = true
		case evAtom:
			g := GapNone
			if prev == nil {
				g = GapMay // start of the document: handled by the matcher
			} else {
				if ws {
					g = GapMay
				}
				if ws && !barrier && segWS && curSegWS && prev.inlineEnd && x.inlineStart {
					g = GapMust
					d.MustPairs++
				}
			}
			d.Atoms = append(d.Atoms, Atom{Canon: x.canon, Gap: g, Wild: x.wild, Markup: x.markup})
			prev = x
			ws, barrier, segWS, curSegWS = false, false, true, false
		}
	}
	return d
}

// Regexp is the pattern the canonical form of the rendered document must match.
func (d Denotation) Regexp() *regexp.Regexp {
	var sb strings.Builder
	sb.WriteString(`^[ \t\n]*`)
	for i, a := range d.Atoms {
		if i > 0 {
			switch a.Gap {
			case GapMay:
				sb.WriteString(`[ \t\n]*`)
			case GapMust:
				sb.WriteString(`[ \t\n]+`)
			}
		}
		if a.Wild {
			sb.WriteString(`[^\x00]*`)
		} else {
			sb.WriteString(regexp.QuoteMeta(a.Canon))
		}
	}
	sb.WriteString(`[ \t\n]*$`)
	return regexp.MustCompile(sb.String())
}
