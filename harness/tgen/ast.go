// Package tgen is a grammar for templ programs with its own AST (independent of parser/v2), a
// printer that makes every concrete-spelling choice explicit and records where each Go expression
// lands in the source, and a reference interpreter giving the document a program denotes.
package tgen

import (
	"strconv"
	"strings"
)

// Args are the argument values every generated template takes:
//
//	(s1, s2 string, b1, b2 bool, n int, xs []string, c templ.Component)
//
// C is rendered by the harness as the marker <i>comp</i>.
type Args struct {
	S1   string   `json:"s1"`
	S2   string   `json:"s2"`
	B1   bool     `json:"b1"`
	B2   bool     `json:"b2"`
	N    int      `json:"n"`
	XS   []string `json:"xs"`
	Fail bool     `json:"fail"` // makes strOrErr(..., fail) calls return an error
}

// Params is the parameter list text of every generated template.
const Params = "s1, s2 string, b1, b2 bool, n int, xs []string, fail bool, c templ.Component"

// ---------- expressions ----------

// Expr is a Go expression of the small typed language. Kind selects the form; Src is the exact
// spelling chosen by the generator (may span lines / contain comments), Eval is defined on Kind.
type Expr struct {
	Kind string `json:"kind"`
	Str  string `json:"str,omitempty"`  // literal value / variable name / marker id
	Num  int    `json:"num,omitempty"`  // int literal
	Args []Expr `json:"args,omitempty"` // operands
	Lit  string `json:"lit,omitempty"`  // for string literals: the spelling (quote form) chosen
	Fmt  string `json:"fmt,omitempty"`  // Sprintf format
	// Cmt: a // comment is written where the spelling allows one - after the operator of a binary
	// expression spread over lines, or at the end of a raw Go statement ({{ v := e // c }}).
	Cmt bool `json:"cmt,omitempty"`
}

// String expression kinds: "var" (Str = name), "strlit" (Str = value, Lit = spelling), "concat",
// "sprintf" (Fmt with %s / %d verbs over Args), "upper" (strings.ToUpper), "itoa" (int arg),
// "orerr" (strOrErr(arg, fail): (string, error)), "tick" (tick("id") returns "", recorded in the trace).
// Bool kinds: "bvar", "not", "eq" (string == string), "gt" (int > int), "and", "or", "true", "false", "nonempty" (len(xs) > 0).
// Int kinds: "ivar", "intlit", "len" (len(xs)), "plus".

// ---------- nodes ----------

type Node struct {
	Kind string `json:"kind"`
	// text: Text; expr: E; element: Name, Attrs, Kids, Void; if: Cond, Kids (then), ElseIfs, Else;
	// for: ForKind ("range" | "count"), Var, Kids; switch: E (tag, nil = tagless), Cases;
	// call: Callee, E (string argument), Kids (block), HasBlock, Legacy; children; gocode: Var, E;
	// htmlcomment: Text; gocomment: Text, Multiline; doctype; style: Text; script: Text.
	Text      string   `json:"text,omitempty"`
	E         *Expr    `json:"e,omitempty"`
	Cond      *Expr    `json:"cond,omitempty"`
	Name      string   `json:"name,omitempty"`
	Attrs     []Attr   `json:"attrs,omitempty"`
	Kids      []Node   `json:"kids,omitempty"`
	Void      bool     `json:"void,omitempty"`
	ElseIfs   []Branch `json:"elseifs,omitempty"`
	Else      []Node   `json:"else,omitempty"`
	HasElse   bool     `json:"has_else,omitempty"`
	ForKind   string   `json:"for_kind,omitempty"`
	Var       string   `json:"var,omitempty"`
	Cases     []Case   `json:"cases,omitempty"`
	Callee    string   `json:"callee,omitempty"` // "sub<N>" (generated sibling template) | "param" (the c parameter)
	HasBlock  bool     `json:"has_block,omitempty"`
	Legacy    bool     `json:"legacy,omitempty"`
	Multiline bool     `json:"multiline,omitempty"`
	// Layout: the whitespace that follows this node in the source, before the next sibling or the
	// parent's closing syntax: "" (nothing), " " (spaces/tabs), "\n" (line break + indentation).
	Sep string `json:"sep"`
	// Layout of the node itself.
	L Layout `json:"l"`
}

type Branch struct {
	Cond Expr   `json:"cond"`
	Kids []Node `json:"kids"`
}

type Case struct {
	Default bool   `json:"default,omitempty"`
	Vals    []Expr `json:"vals,omitempty"` // string exprs for a tagged switch, bool exprs for a tagless one
	Kids    []Node `json:"kids"`
}

// Attr kinds: "const" (Name, Val; Quote ", ' or none), "boolconst" (Name), "expr" (Name, E),
// "boolexpr" (Name, Cond), "spread" (attrs parameter: not used in v1), "cond" (Cond, Then, Else),
// "class" (class={ items }), "href" (href={ templ.URL(E) } / templ.SafeURL(E)).
type Attr struct {
	Kind    string      `json:"kind"`
	Name    string      `json:"name,omitempty"`
	Val     string      `json:"val,omitempty"`   // source spelling of a constant value (may hold character references)
	Quote   string      `json:"quote,omitempty"` // `"`, `'` or "" (unquoted)
	E       *Expr       `json:"e,omitempty"`
	Cond    *Expr       `json:"cond,omitempty"`
	Then    []Attr      `json:"then,omitempty"`
	Else    []Attr      `json:"else,omitempty"`
	HasElse bool        `json:"has_else,omitempty"`
	Items   []ClassItem `json:"items,omitempty"`
	Safe    bool        `json:"safe,omitempty"` // href via templ.SafeURL instead of templ.URL
	// Spelling of the braces of an expression / class attribute: 0 "={ e }", 1 "={e}", 2 the
	// expression on its own line between the braces, 3 as 2 with a trailing comma; Tight writes binary
	// operators without spaces (not gofmt's form).
	Pad   int  `json:"pad,omitempty"`
	Tight bool `json:"tight,omitempty"`
	// Lines spreads the expression itself over several lines (where its form allows it) while the
	// attribute stays on the line of its neighbours, so that other attributes share its last line.
	Lines bool `json:"lines,omitempty"`
}

type ClassItem struct {
	Kind string `json:"kind"` // "str" (E), "kv" (E, Cond)
	E    *Expr  `json:"e,omitempty"`
	Cond *Expr  `json:"cond,omitempty"`
}

// Layout holds the concrete-spelling choices of one node.
type Layout struct {
	Pad       int  `json:"pad,omitempty"`        // expression padding inside { }: 0 "{e}", 1 "{ e }", 2 "{  e  }"
	AttrLines bool `json:"attr_lines,omitempty"` // one attribute per line
	Inline    bool `json:"inline,omitempty"`     // element children on the same line as the tags
	SelfClose int  `json:"self_close,omitempty"` // void element spelling: 0 "<br/>", 1 "<br>", 2 "<br />", 3 "<br></br>"
	Blank     bool `json:"blank,omitempty"`      // a blank line after the node (only with Sep "\n")
	ExprLines bool `json:"expr_lines,omitempty"` // spread the expression over several lines where the form allows it
}

// Template is one `templ name(params) { ... }`.
type Template struct {
	Name string `json:"name"`
	Body []Node `json:"body"`
}

// File is a whole .templ file: header comment, package, imports + prelude Go block, templates
// interleaved with css / script templates and further Go blocks.
type File struct {
	Header    string     `json:"header,omitempty"` // comment lines before the package clause
	Templates []Template `json:"templates"`        // Templates[0] is the entry point; the others are sub<N> callees
	Extras    []Extra    `json:"extras,omitempty"` // extra top-level declarations placed between templates
	CRLF      bool       `json:"crlf,omitempty"`
	// Latin1: the static text of text nodes is written in ISO-8859-1 (é is the single byte 0xE9),
	// as a file saved by an editor set to a legacy encoding holds it. Go expressions stay UTF-8.
	Latin1 bool `json:"latin1,omitempty"`
	// NamedImports: packages imported under a name of the author's choosing (tt = templ itself,
	// rt = templ/runtime, str = strings, ht = html), each used once in a top-level declaration.
	NamedImports []string `json:"named_imports,omitempty"`
}

// Extra top-level declaration: "go" (Text = Go source), "css" (Name, Props), "script" (Name, Text = JS body).
type Extra struct {
	Kind  string    `json:"kind"`
	Name  string    `json:"name,omitempty"`
	Text  string    `json:"text,omitempty"`
	Props []CSSProp `json:"props,omitempty"`
	After int       `json:"after"` // placed after template index After (-1 = before the first)
}

type CSSProp struct {
	Name string `json:"name"`
	Val  string `json:"val,omitempty"` // constant value
	E    *Expr  `json:"e,omitempty"`   // or an expression
}

// TicksInConditionalClass returns the ids of the tick() calls that occur inside class attributes
// (entry names and KV conditions) nested in a conditional attribute, anywhere in the file.
func TicksInConditionalClass(f *File) map[string]bool {
	out := map[string]bool{}
	var expr func(e *Expr)
	expr = func(e *Expr) {
		if e == nil {
			return
		}
		if e.Kind == "tick" {
			out[e.Str] = true
		}
		for i := range e.Args {
			expr(&e.Args[i])
		}
	}
	var attrs func(as []Attr, inCond bool)
	attrs = func(as []Attr, inCond bool) {
		for i := range as {
			a := &as[i]
			switch a.Kind {
			case "cond":
				attrs(a.Then, true)
				attrs(a.Else, true)
			case "class":
				if inCond {
					for j := range a.Items {
						expr(a.Items[j].E)
						expr(a.Items[j].Cond)
					}
				}
			}
		}
	}
	var walk func(ns []Node)
	walk = func(ns []Node) {
		for i := range ns {
			n := &ns[i]
			attrs(n.Attrs, false)
			walk(n.Kids)
			walk(n.Else)
			for j := range n.ElseIfs {
				walk(n.ElseIfs[j].Kids)
			}
			for j := range n.Cases {
				walk(n.Cases[j].Kids)
			}
		}
	}
	for i := range f.Templates {
		walk(f.Templates[i].Body)
	}
	return out
}

// LoopDepth is the deepest nesting of for statements along any path through the file's templates
// starting at template 0, following calls to sibling templates and the blocks passed to them.
func LoopDepth(f *File) int {
	memo := map[int]int{}
	var tpl func(i int) int
	var list func(ns []Node) int
	list = func(ns []Node) int {
		d := 0
		for i := range ns {
			n := &ns[i]
			sub := list(n.Kids)
			if x := list(n.Else); x > sub {
				sub = x
			}
			for j := range n.ElseIfs {
				if x := list(n.ElseIfs[j].Kids); x > sub {
					sub = x
				}
			}
			for j := range n.Cases {
				if x := list(n.Cases[j].Kids); x > sub {
					sub = x
				}
			}
			switch {
			case n.Kind == "for":
				sub++
			case n.Kind == "call" && strings.HasPrefix(n.Callee, "sub"):
				if idx, err := strconv.Atoi(strings.TrimPrefix(n.Callee, "sub")); err == nil && idx < len(f.Templates) {
					// the callee's loops may surround the block's loops ({ children... } in a loop)
					sub += tpl(idx)
				}
			}
			if sub > d {
				d = sub
			}
		}
		return d
	}
	tpl = func(i int) int {
		if v, ok := memo[i]; ok {
			return v
		}
		memo[i] = 0 // calls only go to later templates; guards against surprises
		memo[i] = list(f.Templates[i].Body)
		return memo[i]
	}
	if len(f.Templates) == 0 {
		return 0
	}
	return tpl(0)
}
