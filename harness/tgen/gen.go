package tgen

import (
	"fmt"
	"strings"

	"pgregory.net/rapid"

	"verif/sgen"
)

// Options tune the generator for a particular check.
type Options struct {
	MaxDepth     int
	MaxTemplates int
	NoErrCalls   bool // no (string, error) calls
	Ticks        bool // sprinkle tick("id") expressions to trace evaluation
	Extras       bool // css / script templates and Go blocks between templates
	// BigLiterals makes some style elements hold 70 KB / 200 KB of static text (one literal run).
	BigLiterals bool
	// ScriptExprs adds script elements that place {{ s1 }} bare and inside string literals.
	ScriptExprs bool
	// NoTracedClassInCond leaves tick() out of class expressions inside conditional attributes
	// (a listed known finding: those expressions are hoisted and always evaluated). Excluded is
	// called each time that happens.
	NoTracedClassInCond bool
	Excluded            func()
	// Latin1Text lets a file have its text nodes written in ISO-8859-1 (bytes that are not UTF-8).
	Latin1Text bool
}

var DefaultOptions = Options{MaxDepth: 4, MaxTemplates: 3, Ticks: true, Extras: true}

type gen struct {
	noTick    int // > 0: traced expressions are not generated (see NoTracedClassInCond)
	inCond    bool
	t         *rapid.T
	o         Options
	nTpl      int
	cur       int // index of the template being generated
	svars     []string
	ivars     []string
	nextID    *int
	inSlotTpl bool
}

func (g *gen) id(prefix string) string {
	*g.nextID++
	return fmt.Sprintf("%s%d", prefix, *g.nextID)
}

var litPool = []string{"a", "x y", "é", "世界", "a&b", "<b>", "it's", "say \"hi\"", "", "1 < 2", "tab\there", "q`r", "😀", "a\\b", " lead", "trail ", "&amp;", "a\uFFFDb"}
var litForms = []string{"quoted", "raw", "ascii", "quoted"}

func (g *gen) strExpr(depth int) Expr { return g.strExprTop(depth, false) }

// strExprTop: top says the expression is the whole content of a { } string node or attribute
// value, the only places where templ accepts a (string, error) call.
func (g *gen) strExprTop(depth int, top bool) Expr {
	k := rapid.IntRange(0, 11).Draw(g.t, "strexpr")
	if depth <= 0 && k >= 5 {
		k = k % 5
	}
	switch k {
	case 0, 1:
		names := append([]string{"s1", "s2"}, g.svars...)
		return Expr{Kind: "var", Str: rapid.SampledFrom(names).Draw(g.t, "svar")}
	case 2, 3:
		return Expr{Kind: "strlit", Str: rapid.SampledFrom(litPool).Draw(g.t, "lit"), Lit: rapid.SampledFrom(litForms).Draw(g.t, "form")}
	case 4:
		if g.o.Ticks && g.noTick > 0 {
			if g.o.Excluded != nil {
				g.o.Excluded()
			}
		} else if g.o.Ticks {
			return Expr{Kind: "tick", Str: g.id("t")}
		}
		return Expr{Kind: "var", Str: "s2"}
	case 5, 6:
		return Expr{Kind: "concat", Args: []Expr{g.strExpr(depth - 1), g.strExpr(depth - 1)}, Cmt: rapid.IntRange(0, 4).Draw(g.t, "cmt") == 0}
	case 7:
		return Expr{Kind: "sprintf", Fmt: rapid.SampledFrom([]string{"%s-%d", "[%s|%d]", "%s %d%%"}).Draw(g.t, "fmt"), Args: []Expr{g.strExpr(depth - 1), g.intExpr()}}
	case 8:
		return Expr{Kind: "upper", Args: []Expr{g.strExpr(depth - 1)}}
	case 9:
		return Expr{Kind: "itoa", Args: []Expr{g.intExpr()}}
	default:
		if g.o.NoErrCalls || !top {
			return Expr{Kind: "var", Str: "s1"}
		}
		return Expr{Kind: "orerr", Args: []Expr{g.strExpr(depth - 1)}}
	}
}

func (g *gen) intExpr() Expr {
	switch rapid.IntRange(0, 4).Draw(g.t, "intexpr") {
	case 0:
		names := append([]string{"n"}, g.ivars...)
		return Expr{Kind: "ivar", Str: rapid.SampledFrom(names).Draw(g.t, "ivar")}
	case 1:
		return Expr{Kind: "intlit", Num: rapid.IntRange(0, 12).Draw(g.t, "int")}
	case 2:
		return Expr{Kind: "len"}
	default:
		return Expr{Kind: "plus", Args: []Expr{{Kind: "ivar", Str: "n"}, {Kind: "intlit", Num: rapid.IntRange(0, 3).Draw(g.t, "k")}}}
	}
}

func (g *gen) boolExpr(depth int) Expr {
	k := rapid.IntRange(0, 9).Draw(g.t, "boolexpr")
	if depth <= 0 && k >= 6 {
		k = k % 6
	}
	switch k {
	case 0, 1, 2:
		return Expr{Kind: "bvar", Str: rapid.SampledFrom([]string{"b1", "b2"}).Draw(g.t, "bvar")}
	case 3:
		return Expr{Kind: "eq", Args: []Expr{g.strExpr(0), {Kind: "strlit", Str: rapid.SampledFrom([]string{"a", "x y", ""}).Draw(g.t, "eqlit"), Lit: "quoted"}}}
	case 4:
		return Expr{Kind: "gt", Args: []Expr{g.intExpr(), {Kind: "intlit", Num: rapid.IntRange(0, 3).Draw(g.t, "gtk")}}}
	case 5:
		return Expr{Kind: "nonempty"}
	case 6:
		return Expr{Kind: "not", Args: []Expr{g.boolExpr(depth - 1)}}
	case 7:
		return Expr{Kind: "and", Args: []Expr{g.boolExpr(depth - 1), g.boolExpr(depth - 1)}}
	case 8:
		return Expr{Kind: "or", Args: []Expr{g.boolExpr(depth - 1), g.boolExpr(depth - 1)}}
	default:
		return Expr{Kind: rapid.SampledFrom([]string{"true", "false"}).Draw(g.t, "const")}
	}
}

var textPool = []string{"hello", "a b c", "é ü", "世界", "Tom &amp; Jerry", "1 &lt; 2", "it's", "x", "tail.", "(paren)", "q?", "50%", "a/b", "semi;colon", "the end", "&#233;", "if", "for", "😀 ok", "-", "ifx y", "x \uFFFD y",
	// backslashes in static text that read like Go escape sequences (no quote, tab or line break next to them)
	`C:\temp\new_report.txt`, `a\b`, `\x3cb\x3e`, `\u00e9 \201C`, `100\%`}

var inlineNames = []string{"a", "abbr", "b", "button", "code", "em", "i", "label", "small", "span", "strong", "u", "x-item"}
var blockNames = []string{"div", "p", "ul", "li", "section", "h1", "article", "main", "header", "footer", "td"}
var voidNames = []string{"br", "hr", "input", "img"}

var constVals = []struct{ val, quote string }{
	{"v", `"`}, {"a b", `"`}, {"x&amp;y", `"`}, {"it&#39;s", `"`}, {"say &quot;hi&quot;", `"`}, {"a'b", `"`}, {"a\"b", `'`}, {"plain", ""}, {"é", `"`}, {"", `"`}, {"1&lt;2", `'`}, {"a=b", `"`}, {"p/q", `"`}, {"two\nlines", `"`}, {`C:\temp\new`, `"`}, {`\x3cb\x3e`, `'`},
	// references without a terminating semicolon and escaped ampersands in front of things that
	// look like references: html.UnescapeString decodes legacy names and numbers without ';'
	{"/l?id=1&amp;copy=2", `"`}, {"&amp;lt", `"`}, {"&amp;#38;region", `"`}, {"&amp;#60", `'`}, {"a&b", `"`}, {"&lt", `"`}, {"&amp;amp;", `"`}, {"x &amp;&amp; y", `"`}, {"&#x26;gt", `"`}, {"&copy", `"`},
}

func (g *gen) attr(depth int, elem string) Attr {
	k := rapid.IntRange(0, 11).Draw(g.t, "attr")
	if depth <= 0 && k == 7 {
		k = 0
	}
	return g.attrKind(k, depth, elem)
}

func (g *gen) attrKind(k, depth int, elem string) Attr {
	switch k {
	case 0, 1, 2:
		cv := rapid.SampledFrom(constVals).Draw(g.t, "cv")
		return Attr{Kind: "const", Name: rapid.SampledFrom([]string{"title", "id", "data-x", "lang", "class", "data-y", "role", "aria-label"}).Draw(g.t, "cname"), Val: cv.val, Quote: cv.quote}
	case 3:
		return Attr{Kind: "boolconst", Name: rapid.SampledFrom([]string{"hidden", "disabled", "data-flag", "contenteditable"}).Draw(g.t, "bname")}
	case 4, 5:
		e := g.strExprTop(1, true)
		return g.spell(Attr{Kind: "expr", Name: rapid.SampledFrom([]string{"title", "id", "data-x", "data-z", "alt", "placeholder"}).Draw(g.t, "ename"), E: &e})
	case 6:
		c := g.boolExpr(1)
		return Attr{Kind: "boolexpr", Name: rapid.SampledFrom([]string{"hidden", "disabled", "checked", "data-on"}).Draw(g.t, "bename"), Cond: &c}
	case 7:
		c := g.boolExpr(1)
		a := Attr{Kind: "cond", Cond: &c}
		wasInCond := g.inCond
		g.inCond = true
		defer func() { g.inCond = wasInCond }()
		for i, n := 0, rapid.IntRange(1, 2).Draw(g.t, "nthen"); i < n; i++ {
			a.Then = append(a.Then, g.attr(depth-1, elem))
		}
		if rapid.Bool().Draw(g.t, "haselse") {
			a.HasElse = true
			for i, n := 0, rapid.IntRange(1, 2).Draw(g.t, "nelse"); i < n; i++ {
				a.Else = append(a.Else, g.attr(depth-1, elem))
			}
		}
		if depth >= 2 && rapid.IntRange(0, 2).Draw(g.t, "elseif") == 0 {
			// how "else if" is spelled for attributes: a conditional attribute nested in the else
			// branch, here around a class expression (which the generator rewrites before use)
			c2 := g.boolExpr(0)
			inner := Attr{Kind: "cond", Cond: &c2, Then: []Attr{g.attrKind(8, 0, elem)}}
			if rapid.Bool().Draw(g.t, "elseifElse") {
				inner.HasElse = true
				inner.Else = []Attr{g.attrKind(rapid.SampledFrom([]int{0, 4, 8}).Draw(g.t, "elseifElseKind"), 0, elem)}
			}
			a.HasElse = true
			a.Else = append(a.Else, inner)
		}
		return a
	case 8:
		a := Attr{Kind: "class"}
		for i, n := 0, rapid.IntRange(1, 3).Draw(g.t, "nitems"); i < n; i++ {
			e := Expr{Kind: "strlit", Str: rapid.SampledFrom([]string{"c1", "c2", "big", "c-3"}).Draw(g.t, "cls"), Lit: "quoted"}
			switch rapid.IntRange(0, 3).Draw(g.t, "clsvar") {
			case 0:
				e = Expr{Kind: "var", Str: "s2"}
			case 1:
				if g.inCond && g.o.NoTracedClassInCond {
					if g.o.Excluded != nil {
						g.o.Excluded()
					}
				} else if g.o.Ticks {
					// a traced class name: shows whether the class expression is evaluated
					e = Expr{Kind: "concat", Args: []Expr{{Kind: "tick", Str: g.id("t")}, e}}
				}
			}
			it := ClassItem{Kind: "str", E: &e}
			if rapid.Bool().Draw(g.t, "kv") {
				if g.inCond && g.o.NoTracedClassInCond {
					g.noTick++ // the condition of a KV entry is hoisted with the rest of the class expression
				}
				c := g.boolExpr(0)
				if g.inCond && g.o.NoTracedClassInCond {
					g.noTick--
				}
				it = ClassItem{Kind: "kv", E: &e, Cond: &c}
			}
			a.Items = append(a.Items, it)
		}
		return g.spell(a)
	case 9:
		if elem == "a" {
			e := Expr{Kind: "strlit", Str: rapid.SampledFrom([]string{"/p", "https://e.x/?a=1&b=2", "#frag", "/a b"}).Draw(g.t, "url"), Lit: "quoted"}
			return Attr{Kind: "href", Name: "href", E: &e, Safe: rapid.Bool().Draw(g.t, "safe")}
		}
		fallthrough
	default:
		e := g.strExpr(1)
		return Attr{Kind: "expr", Name: rapid.SampledFrom([]string{"data-k", "title", "value"}).Draw(g.t, "ename2"), E: &e}
	}
}

// spell draws the brace spelling of an expression attribute. A (string, error) call must stay
// alone between the braces (no trailing comma).
func (g *gen) spell(a Attr) Attr {
	switch rapid.IntRange(0, 9).Draw(g.t, "attrpad") {
	case 0:
		a.Pad = 1
	case 1:
		a.Pad = 2
	case 2:
		a.Pad = 3
		if a.E != nil && a.E.Kind == "orerr" {
			a.Pad = 2
		}
	}
	a.Tight = rapid.IntRange(0, 4).Draw(g.t, "tight") == 0
	a.Lines = a.Kind == "expr" && rapid.IntRange(0, 4).Draw(g.t, "exprlines") == 0
	return a
}

func dedupAttrs(as []Attr) []Attr {
	// keep attribute names unique per element so that "the attribute" is well defined for the tokenizer
	seen := map[string]bool{}
	var names func(a *Attr) []string
	names = func(a *Attr) []string {
		switch a.Kind {
		case "cond":
			var out []string
			for i := range a.Then {
				out = append(out, names(&a.Then[i])...)
			}
			for i := range a.Else {
				out = append(out, names(&a.Else[i])...)
			}
			return out
		case "class":
			return []string{"class"}
		}
		return []string{a.Name}
	}
	var out []Attr
	for i := range as {
		ns := names(&as[i])
		clash := false
		local := map[string]bool{}
		for _, n := range ns {
			if seen[n] || local[n] {
				clash = true
			}
			local[n] = true
		}
		if clash {
			continue
		}
		for _, n := range ns {
			seen[n] = true
		}
		out = append(out, as[i])
	}
	return out
}

func (g *gen) layout() Layout {
	return Layout{
		Pad:       rapid.SampledFrom([]int{1, 1, 1, 0, 2}).Draw(g.t, "pad"),
		AttrLines: rapid.IntRange(0, 4).Draw(g.t, "attrlines") == 0,
		Inline:    rapid.Bool().Draw(g.t, "inline"),
		SelfClose: rapid.IntRange(0, 3).Draw(g.t, "selfclose"),
		Blank:     rapid.IntRange(0, 5).Draw(g.t, "blank") == 0,
		ExprLines: rapid.IntRange(0, 7).Draw(g.t, "exprlines") == 0,
	}
}

func (g *gen) sep() string {
	return rapid.SampledFrom([]string{"\n", "\n", " ", "", " "}).Draw(g.t, "sep")
}

func (g *gen) nodes(depth int, max int) []Node {
	n := rapid.IntRange(0, max).Draw(g.t, "nnodes")
	var out []Node
	// variables introduced by {{ }} are visible to later siblings only
	nvars := len(g.svars)
	for i := 0; i < n; i++ {
		out = append(out, g.node(depth))
	}
	g.svars = g.svars[:nvars]
	return out
}

func (g *gen) node(depth int) Node {
	k := rapid.IntRange(0, 21).Draw(g.t, "node")
	if depth <= 0 && k >= 8 {
		k = k % 8
	}
	n := Node{Sep: g.sep(), L: g.layout()}
	switch k {
	case 0, 1, 2:
		n.Kind = "text"
		n.Text = rapid.SampledFrom(textPool).Draw(g.t, "text")
	case 3, 4, 5:
		n.Kind = "expr"
		e := g.strExprTop(2, true)
		n.E = &e
	case 6:
		n.Kind = "element"
		n.Void = true
		n.Name = rapid.SampledFrom(voidNames).Draw(g.t, "void")
		for i, m := 0, rapid.IntRange(0, 2).Draw(g.t, "nattrs"); i < m; i++ {
			n.Attrs = append(n.Attrs, g.attr(2, n.Name))
		}
		n.Attrs = dedupAttrs(n.Attrs)
	case 7:
		n.Kind = rapid.SampledFrom([]string{"htmlcomment", "gocomment", "gocomment"}).Draw(g.t, "comment")
		n.Text = rapid.SampledFrom([]string{" note ", " it's a \"comment\" ", " <b>not markup</b> ", " é ", " TODO: x ", "", ` C:\temp\new `, ` \x3c!-- `}).Draw(g.t, "ctext")
		n.Multiline = rapid.Bool().Draw(g.t, "mlc")
		if n.Kind == "htmlcomment" && rapid.IntRange(0, 3).Draw(g.t, "mlhtml") == 0 {
			n.Text = " first line\n\t\tsecond line " // an HTML comment is rendered byte for byte
		}
		if n.Kind == "htmlcomment" && n.Text == "" {
			n.Text = " c "
		}
	case 8, 9, 10, 11:
		n.Kind = "element"
		if rapid.Bool().Draw(g.t, "inlineEl") {
			n.Name = rapid.SampledFrom(inlineNames).Draw(g.t, "iname")
		} else {
			n.Name = rapid.SampledFrom(blockNames).Draw(g.t, "bname")
		}
		for i, m := 0, rapid.IntRange(0, 3).Draw(g.t, "nattrs"); i < m; i++ {
			n.Attrs = append(n.Attrs, g.attr(2, n.Name))
		}
		n.Attrs = dedupAttrs(n.Attrs)
		n.Kids = g.nodes(depth-1, 4)
	case 12, 13:
		n.Kind = "if"
		c := g.boolExpr(2)
		n.Cond = &c
		n.Kids = g.nodes(depth-1, 3)
		for i, m := 0, rapid.IntRange(0, 2).Draw(g.t, "nelseif"); i < m && m < 2; i++ {
			n.ElseIfs = append(n.ElseIfs, Branch{Cond: g.boolExpr(1), Kids: g.nodes(depth-1, 2)})
		}
		if rapid.Bool().Draw(g.t, "else") {
			n.HasElse = true
			n.Else = g.nodes(depth-1, 3)
		}
	case 14, 15:
		n.Kind = "for"
		if rapid.Bool().Draw(g.t, "range") {
			n.ForKind = "range"
			n.Var = g.id("x")
			g.svars = append(g.svars, n.Var)
			n.Kids = g.nodes(depth-1, 3)
			g.svars = g.svars[:len(g.svars)-1]
		} else {
			n.ForKind = "count"
			n.Var = g.id("i")
			g.ivars = append(g.ivars, n.Var)
			n.Kids = g.nodes(depth-1, 3)
			g.ivars = g.ivars[:len(g.ivars)-1]
		}
		// a loop variable must be used or the Go code does not compile
		use := Expr{Kind: "var", Str: n.Var}
		if n.ForKind == "count" {
			use = Expr{Kind: "itoa", Args: []Expr{{Kind: "ivar", Str: n.Var}}}
		}
		n.Kids = append(n.Kids, Node{Kind: "expr", E: &use, Sep: "\n", L: Layout{Pad: 1}})
	case 16:
		n.Kind = "switch"
		tagged := rapid.Bool().Draw(g.t, "tagged")
		if tagged {
			e := g.strExpr(0)
			n.E = &e
		}
		for i, m := 0, rapid.IntRange(0, 3).Draw(g.t, "ncases"); i < m; i++ {
			c := Case{Kids: g.nodes(depth-1, 2)}
			for j, q := 0, rapid.IntRange(1, 2).Draw(g.t, "nvals"); j < q; j++ {
				if tagged {
					c.Vals = append(c.Vals, Expr{Kind: "strlit", Str: rapid.SampledFrom([]string{"a", "x y", "", "é", "b"}).Draw(g.t, "caseval") + fmt.Sprint(i*2+j), Lit: "quoted"})
				} else {
					b := g.boolExpr(1)
					if b.Kind == "true" || b.Kind == "false" {
						b = Expr{Kind: "bvar", Str: "b2"} // Go rejects duplicate constant cases
					}
					c.Vals = append(c.Vals, b)
				}
			}
			n.Cases = append(n.Cases, c)
		}
		if rapid.Bool().Draw(g.t, "default") {
			n.Cases = append(n.Cases, Case{Default: true, Kids: g.nodes(depth-1, 2)})
		}
	case 17, 18:
		n.Kind = "call"
		if g.cur+1 < g.nTpl && rapid.IntRange(0, 3).Draw(g.t, "sub") > 0 {
			n.Callee = fmt.Sprintf("sub%d", rapid.IntRange(g.cur+1, g.nTpl-1).Draw(g.t, "subidx"))
			e := g.strExpr(1)
			if rapid.IntRange(0, 5).Draw(g.t, "rawml") == 0 {
				// a raw string literal spanning lines, some of them blank or whitespace-only: the call
				// expression becomes a multi-line one whose continuation lines are string content
				e = Expr{Kind: "strlit", Lit: "raw", Str: rapid.SampledFrom([]string{"first\n   \nthird", "a\n\t\nb", "x\n\ny", "one\n  two\n\t\t\nthree ", " \n "}).Draw(g.t, "mlraw")}
			}
			n.E = &e
			if rapid.Bool().Draw(g.t, "block") {
				n.HasBlock = true
				n.Kids = g.nodes(depth-1, 3)
			}
		} else {
			n.Callee = rapid.SampledFrom([]string{"param", "param", "card", "box", "index0", "index1", "flush", "flush", "capture"}).Draw(g.t, "callee")
			switch n.Callee {
			case "capture":
				// a hand-written component that renders its block into a buffer of its own
				n.HasBlock = true
				n.Kids = g.nodes(depth-1, 3)
			case "flush":
				// templ.Flush renders its block in place (and flushes the writer afterwards)
				n.HasBlock = true
				n.Kids = g.nodes(depth-1, 3)
				if !g.o.NoErrCalls && rapid.Bool().Draw(g.t, "flushErr") {
					// an expression that can fail inside the block: the error has to come out of Flush
					pos := rapid.IntRange(0, len(n.Kids)).Draw(g.t, "flushErrPos")
					en := Node{Kind: "expr", E: &Expr{Kind: "orerr", Args: []Expr{{Kind: "var", Str: "s1"}}}, Sep: "\n"}
					n.Kids = append(n.Kids[:pos:pos], append([]Node{en}, n.Kids[pos:]...)...)
				}
			case "param":
				n.Legacy = rapid.IntRange(0, 3).Draw(g.t, "legacy") == 0
			case "card", "box":
				e := g.strExpr(1)
				n.E = &e
				if rapid.IntRange(0, 3).Draw(g.t, "ignoredBlock") == 0 {
					// these components ignore their children: the block must simply not appear
					n.HasBlock = true
					n.Kids = g.nodes(depth-1, 2)
				}
			}
		}
	case 19:
		n.Kind = "children"
	case 20:
		n.Kind = "gocode"
		n.Var = g.id("v")
		e := g.strExpr(1)
		e.Cmt = rapid.IntRange(0, 3).Draw(g.t, "gocmt") == 0
		n.E = &e
		// make sure the variable is used (Go rejects unused variables): a use follows immediately
		g.svars = append(g.svars, n.Var)
	default:
		n.Kind = rapid.SampledFrom([]string{"style", "script"}).Draw(g.t, "raw")
		if rapid.IntRange(0, 2).Draw(g.t, "rawAttrs") == 0 {
			// attributes on raw-text elements: constants and plain expression attributes (a class
			// expression here is an ordinary string attribute - these elements have no css handling)
			for i, k := 0, rapid.IntRange(1, 2).Draw(g.t, "nRawAttrs"); i < k; i++ {
				switch rapid.IntRange(0, 2).Draw(g.t, "rawAttr") {
				case 0:
					n.Attrs = append(n.Attrs, Attr{Kind: "const", Name: fmt.Sprintf("data-k%d", i), Val: "v", Quote: `"`})
				case 1:
					e := g.strExpr(1)
					if e.Kind == "orerr" {
						e = Expr{Kind: "var", Str: "s1"}
					}
					n.Attrs = append(n.Attrs, Attr{Kind: "expr", Name: "class", E: &e})
				default:
					e := Expr{Kind: "var", Str: "s2"}
					n.Attrs = append(n.Attrs, Attr{Kind: "expr", Name: fmt.Sprintf("data-v%d", i), E: &e})
				}
			}
		}
		if n.Kind == "style" {
			n.Text = rapid.SampledFrom([]string{"", ".a { color: red; }", "\n\t.b > p { margin: 0 }\n\t", "/* é */ .c::after { content: \"x\"; }", `.q::before { content: '\201C'; }`}).Draw(g.t, "css")
			if g.o.BigLiterals && rapid.IntRange(0, 3).Draw(g.t, "big") == 0 {
				n.Text = strings.Repeat(".k > p { margin: 0; content: \"é\\\"\"; }\n", rapid.SampledFrom([]int{1500, 1700, 5000}).Draw(g.t, "bigrep"))
			}
		} else {
			pool := []string{"", "var a = 1;", `var re = /\bfoo\b/;`, "\n\t\tif (1 < 2) { console.log(\"é\"); }\n\t", "var s = 'it\\'s'; // c\n\t"}
			if g.o.ScriptExprs {
				pool = append(pool, "var a = {{ s1 }};", "var a = \"{{ s1 }}\";", "var a = '{{ s1 }}', b = {{ s1 }};")
			}
			n.Text = rapid.SampledFrom(pool).Draw(g.t, "js")
		}
	}
	return n
}

// useVars appends a use of every {{ v := ... }} variable right after its declaration.
func useVars(ns []Node) []Node {
	var out []Node
	for i := range ns {
		n := ns[i]
		n.Kids = useVars(n.Kids)
		n.Else = useVars(n.Else)
		for j := range n.ElseIfs {
			n.ElseIfs[j].Kids = useVars(n.ElseIfs[j].Kids)
		}
		for j := range n.Cases {
			n.Cases[j].Kids = useVars(n.Cases[j].Kids)
		}
		out = append(out, n)
		if n.Kind == "gocode" {
			use := Expr{Kind: "var", Str: n.Var}
			out[len(out)-1].Sep = "\n"
			out = append(out, Node{Kind: "expr", E: &use, Sep: "\n", L: Layout{Pad: 1}})
		}
	}
	return out
}

// GenFile draws a normalised program.
func GenFile(o Options) *rapid.Generator[*File] {
	return rapid.Custom(func(t *rapid.T) *File {
		id := 0
		f := &File{}
		nt := rapid.IntRange(1, o.MaxTemplates).Draw(t, "ntemplates")
		g := &gen{t: t, o: o, nTpl: nt, nextID: &id}
		for i := 0; i < nt; i++ {
			g.cur = i
			g.svars, g.ivars = nil, nil
			body := g.nodes(o.MaxDepth, 5)
			// layered calls: blocks handed from template to template, with and without slots on the way
			if i < nt-1 && rapid.Bool().Draw(t, "chain") {
				e := Expr{Kind: "var", Str: "s1"}
				call := Node{Kind: "call", Callee: fmt.Sprintf("sub%d", i+1), E: &e, Sep: "\n"}
				if rapid.Bool().Draw(t, "chainblock") {
					call.HasBlock = true
					call.Kids = []Node{{Kind: "text", Text: fmt.Sprintf("blk%d", i), Sep: "\n"}}
				}
				pos := rapid.IntRange(0, len(body)).Draw(t, "chainpos")
				body = append(body[:pos:pos], append([]Node{call}, body[pos:]...)...)
			}
			if i > 0 && rapid.IntRange(0, 2).Draw(t, "slot") == 0 {
				body = append(body, Node{Kind: "children", Sep: "\n"})
			}
			if len(body) == 0 {
				body = []Node{{Kind: "text", Text: "empty", Sep: "\n"}}
			}
			f.Templates = append(f.Templates, Template{Body: useVars(body)})
		}
		if rapid.IntRange(0, 3).Draw(t, "header") == 0 {
			f.Header = rapid.SampledFrom([]string{"// header comment", "// Code for é\n// second line", "/* block header */"}).Draw(t, "headertext")
		}
		if o.Extras {
			for i, n := 0, rapid.IntRange(0, 3).Draw(t, "nextras"); i < n; i++ {
				x := Extra{After: rapid.IntRange(-1, nt-1).Draw(t, "after")}
				switch rapid.IntRange(0, 2).Draw(t, "xkind") {
				case 0:
					x.Kind = "go"
					x.Text = fmt.Sprintf(rapid.SampledFrom([]string{"const PFXk%d = \"é\"", "// a comment\nvar PFXv%d = 1", "func PFXf%d(s string) string {\n\treturn s + \"x\"\n}", "type PFXt%d struct {\n\tA string\n}"}).Draw(t, "gosrc"), i)
				case 1:
					x.Kind = "css"
					x.Name = fmt.Sprintf("css%d", i)
					// custom property names are case-sensitive; the others are written as the author spelled them
					x.Props = []CSSProp{{Name: rapid.SampledFrom([]string{"color", "color", "--mainColor", "--Paper-shadow", "background-Color", "-webkit-Transition"}).Draw(t, "cssname"), Val: "red"}}
					if rapid.Bool().Draw(t, "cssexpr") {
						e := Expr{Kind: "strlit", Str: "1px", Lit: "quoted"}
						x.Props = append(x.Props, CSSProp{Name: rapid.SampledFrom([]string{"width", "width", "--boxWidth"}).Draw(t, "cssexprname"), E: &e})
					}
				default:
					x.Kind = "script"
					x.Name = fmt.Sprintf("js%d", i)
					x.Text = rapid.SampledFrom([]string{"\tconsole.log(a, k);", "\tif (k > 1) { alert(a); }\n\t// é"}).Draw(t, "jsbody")
				}
				f.Extras = append(f.Extras, x)
			}
		}
		if o.Extras && rapid.IntRange(0, 4).Draw(t, "namedImports") == 0 {
			f.NamedImports = rapid.SampledFrom([][]string{{"tt"}, {"rt"}, {"str"}, {"tt", "str"}, {"ht", "rt"}, {"tt", "rt"}}).Draw(t, "imports")
		}
		Normalize(f)
		return f
	})
}

// GenArgs draws argument values.
func GenArgs() *rapid.Generator[Args] {
	strs := []string{"", "a", "x y", "<b>&\"'", "é世", "a&amp;b", "  ", "tab\tx", "line\nbreak", "1 < 2 > 0", "q`", "trail ", " lead", "😀"}
	// half of the strings come from the HTML-adversarial generator shared with C01 (made valid
	// UTF-8, without NUL / U+0001 - the matcher's markers - and without CR, which the tokenizer
	// normalises; those bytes are C01's business)
	adv := rapid.Custom(func(t *rapid.T) string {
		s := strings.ToValidUTF8(sgen.HTMLString().Draw(t, "adv"), "?")
		return strings.NewReplacer("\x00", "", "\x01", "", "\r", "").Replace(s)
	})
	str := rapid.OneOf(rapid.SampledFrom(strs), adv)
	return rapid.Custom(func(t *rapid.T) Args {
		return Args{
			S1:   str.Draw(t, "s1"),
			S2:   str.Draw(t, "s2"),
			B1:   rapid.Bool().Draw(t, "b1"),
			B2:   rapid.Bool().Draw(t, "b2"),
			N:    rapid.IntRange(0, 3).Draw(t, "n"),
			XS:   rapid.SliceOfN(rapid.SampledFrom(strs), 0, 3).Draw(t, "xs"),
			Fail: rapid.IntRange(0, 5).Draw(t, "fail") == 0,
		}
	})
}
