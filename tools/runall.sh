#!/bin/bash
# runall.sh <tier> <seed> [parallel]  - runs every claimed check, prints one line per check
TIER=${1:-quick}; SEED=${2:-1}; PAR=${3:-4}
cd /verif
mkdir -p /tmp/runall-$SEED
ids=$(python3 -c "import json;print(' '.join(c['property_id'] for c in json.load(open('MANIFEST.json'))['checks']))")
printf '%s\n' $ids | xargs -P $PAR -I{} sh -c "VERIF_SEED=$SEED ./check run {} $TIER > /tmp/runall-$SEED/{}.log 2>&1; echo {} rc=\$? \$(grep -c '^VIOLATION' /tmp/runall-$SEED/{}.log) violations \$(tail -1 /tmp/runall-$SEED/{}.log | cut -c1-100)"
