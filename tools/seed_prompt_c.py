#!/usr/bin/env python3
"""Round-c prompt: as seed_prompt.py plus hints which two mechanisms earlier planted defects already used."""
import subprocess, sys
pid, wt = sys.argv[1], sys.argv[2]
base = subprocess.check_output([sys.executable, '/verif/tools/seed_prompt.py', pid, wt]).decode()
avoid = {
 "C01": ["a hand-written replacement of the HTML escaper that mishandles truncated UTF-8", "passing an escaped value as the format string of fmt.Fprintf in the JSON script element"],
 "C02": ["the Go expression scanner treating '{' after ']' as the start of a children block", "generated templates without a children slot no longer taking the block out of the context"],
 "C03": ["the script parser's backslash-escape handling inside backtick literals", "a look-ahead in the JavaScript string escaper that stops at the end of one value ('$' followed by '{' from the next piece)"],
 "C04": ["tolerating whitespace/control characters in front of the scheme in templ.URL", "not escaping ampersands of character references in URL attribute values"],
 "C05": ["the per-item 'found' flag in the background-image sanitiser", "skipping HTML escaping of style attribute values that contain only '&'"],
 "C06": ["the end column of statement expressions being advanced per rune instead of per byte", "the script template declaration parser looping on a missing name"],
 "C07": ["trimming a string expression's text in the generator before it is mapped", "the source map's per-line column map being replaced for continuation lines of a multi-line expression"],
 "C08": ["which ampersands the formatter escapes in constant attribute values", "how the formatter re-indents multi-line arguments of @component(...) calls (raw string literals)"],
 "C09": ["choosing the single-line or multi-line route for expression attributes from the untrimmed text", "the import block keeping its parentheses for one more run of templ fmt"],
 "C10": ["runtime.Buffer adopting the caller's bufio.Writer in Reset", "templ.ToGoHTML returning the partial output of a failed render"],
 "C11": ["releasing the pooled byte buffer twice in the buffered handler", "the error path writing the configured success status before calling the error handler"],
 "C12": ["deferring the registration of script names in RenderScriptItems until after the write", "the lazy initialisation of the per-context script set wiping the set of rendered css classes"],
 "C13": ["emitting the ClearChildren after a block call only when a sibling node follows", "leaf templates (no slot, no calls) no longer taking their block out of the context"],
 "C14": ["runtime.Buffer adopting the caller's bufio.Writer in Reset", "turning the development-mode text cache mutex into an RWMutex that is held for reading while the cache is reloaded"],
 "C15": ["a shared generator-options slice with spare capacity appended to by several workers", "writing the output file without O_TRUNC"],
 "C16": ["reading the development text file with a bufio.Scanner (64 KiB line limit)", "hashing the text literals without a separator to decide whether the text file must be rewritten"],
 "C17": ["a cached line-length table that the whole-document fast path does not invalidate", "dropping the changes of a notification that precede a whole-document-range change"],
 "C18": ["recycling the per-call response channel of jsonrpc2 Conn.Call", "reading the frame body with io.ReadAll(io.LimitReader(...)) so that a short final frame is accepted"],
 "C19": ["decrementing the sse client counter that is also used as the registration key", "delivering a broadcast to all clients from one goroutine (head-of-line blocking behind a stalled client)"],
 "C20": ["taking the proxy's output buffer from a sync.Pool and releasing it before it is copied", "parsing the document with scripting disabled (noscript content re-serialised differently)"],
}
a, b = avoid[pid]
hint = f"\n\nNote: earlier volunteers already planted defects based on these two mechanisms: (1) {a}; (2) {b}. Choose a mechanism DIFFERENT from both, in a different part of the code, with a different kind of trigger, so that your defect is independent of them.\n"
print(base + hint)
