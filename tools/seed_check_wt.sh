#!/bin/bash
# Like seed_check.sh, but in a scratch worktree of /repo (VERIF_ALT_REPO), so /repo is never touched
# and several seeds can be checked at the same time. seed_check_wt.sh <patch> <prop> [quick|thorough]
set -u
PATCH=$1; PROP=$2; TIER=${3:-quick}
WT=$(mktemp -d /tmp/scwt-XXXXXX)
git -C /repo worktree add -q --detach "$WT" HEAD || exit 2
cleanup() { git -C /repo worktree remove --force "$WT" 2>/dev/null; rm -rf "$WT" "$OUT"; }
OUT=$(mktemp -d /tmp/scwt-out-XXXXXX)
trap cleanup EXIT
if ! git -C "$WT" apply "$PATCH"; then echo "patch does not apply"; exit 2; fi
cd /verif && VERIF_ALT_REPO="$WT" VERIF_ALT_OUT="$OUT" ./check run "$PROP" "$TIER"; RC=$?
echo "SEEDCHECK prop=$PROP tier=$TIER rc=$RC"
exit $RC
