#!/usr/bin/env python3
"""Prints the prompt for a mutation-seeding sub-agent: property text only."""
import json, sys
pid, wt = sys.argv[1], sys.argv[2]
for l in open('/verif/properties.jsonl'):
    p = json.loads(l)
    if p['id'] == pid:
        break
print(f"""You are helping to evaluate a verification effort by planting a realistic defect in a Go code base.

The code base is a-h/templ (an HTML templating language for Go: parser, Go code generator, formatter, runtime helpers, LSP proxy, `templ generate` command with watch mode and live-reload proxy). You have your own scratch git worktree of it at {wt} (a detached checkout). Work ONLY inside {wt}. Never read, write or run anything under /repo or /verif - they are off limits.

The property the code is supposed to satisfy:

  Title: {p['title']}
  Statement: {p['statement']}
  It must hold: {p['quantifier']['text']}

Your task: make ONE small, realistic change to the non-test Go source of templ in {wt} (the kind of slip a maintainer could plausibly make during a refactoring, an optimisation or a feature addition) such that
  1. the property above no longer holds,
  2. everything still compiles,
  3. the whole existing test suite still passes unchanged (you must not edit, add or delete any existing test, golden file or testdata),
  4. the violation needs something SPECIFIC to manifest - a particular interleaving, a fault at a particular point, a multi-step sequence of operations, an unusual input (a rare character, a boundary length, a particular combination of options), or two cooperating sites that each look fine alone. It must NOT be something ordinary use would expose at once (e.g. not "always returns the wrong thing").

Environment: no network. Every shell command that runs go needs: export GOFLAGS=-mod=mod GOPROXY=off GOSUMDB=off GOTOOLCHAIN=local
Run the existing tests with:  cd {wt} && go build ./... && go test -vet=off -count=1 ./... 2>&1 | grep -v '^ok\\|no test files'   (the package cmd/templ/lspcmd fails in this sandbox even without any change because gopls is not installed - ignore that one package; everything else must pass). Also: cd {wt}/runtime/fuzzing && go test -vet=off -count=1 ./...
If `git status` shows go.sum modified by the go tool, restore it with `git checkout go.sum`.

Deliverables, all inside {wt}/SEED/ (create the directory):
  - patch.diff : output of `git diff` for your change to templ's source (only the source change; must apply with `git apply` to a clean checkout of the same commit). Do not include SEED/ or go.sum in it.
  - a demonstration that FAILS with your change applied and PASSES without it: either a Go test file (say which directory it must be copied into and the `go test -run` command) or a small main program with a run command. It must be deterministic or, if it depends on scheduling, must fail in the large majority of runs. Put it under {wt}/SEED/demo/ and describe in NOTES.md exactly how to run it (commands), what output shows failure, and what shows success.
  - NOTES.md : which file/function you changed and why it breaks the property, what specific circumstances are needed for the violation to show, and the exact commands you ran (existing test suite with the change; demo with and without the change) with their results.

Before finishing, verify all of it yourself: apply the patch to a clean tree (git stash / git checkout to get clean, then git apply SEED/patch.diff), run the existing tests (must pass), run the demo (must fail); then revert the source change (git checkout -- . but keep SEED/), run the demo again (must pass). Leave the worktree with the source change REVERTED and SEED/ in place. Do not commit anything.

Be subtle and creative; prefer a change deep in the mechanism the property depends on rather than at the most obvious line. Report back briefly: one paragraph describing the change and the trigger.""")
