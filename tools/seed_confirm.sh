#!/bin/bash
# Confirms a seeded change in a scratch worktree of /repo:
#   seed_confirm.sh <seed-dir containing patch.diff> <demo-src (relative to seed dir) or -> <demo-dst relative to worktree or -> <demo command (run in worktree)>
# 1. existing test suite passes with the patch (baseline list), 2. demo fails with the patch, 3. demo passes without it.
set -u
export GOFLAGS=-mod=mod GOPROXY=off GOSUMDB=off GOTOOLCHAIN=local
SEED=$1; SRC=$2; DST=$3; CMD=$4
WT=$(mktemp -d /tmp/confirm-XXXXXX)
git -C /repo worktree add -q --detach "$WT" HEAD || exit 2
cleanup() { git -C /repo worktree remove --force "$WT" 2>/dev/null; rm -rf "$WT"; }
trap cleanup EXIT
cd "$WT"
if ! git apply "$SEED/patch.diff"; then echo "CONFIRM: patch does not apply"; exit 3; fi
go build ./... || { echo "CONFIRM: does not build"; exit 3; }
# existing suite (both modules) against the baseline list
python3 - "$WT" <<'PY'
import json, os, subprocess, sys
wt = sys.argv[1]
env = dict(os.environ)
passed, failed = set(), set()
for m in [".", "runtime/fuzzing"]:
    p = subprocess.run(["go", "test", "-json", "-vet=off", "-count=1", "-timeout", "25m", "./..."], cwd=os.path.join(wt, m), env=env, stdout=subprocess.PIPE, stderr=subprocess.DEVNULL, text=True)
    for line in p.stdout.splitlines():
        try: e = json.loads(line)
        except Exception: continue
        if e.get("Test") and e.get("Action") in ("pass", "fail"):
            (passed if e["Action"] == "pass" else failed).add("%s::%s" % (e["Package"], e["Test"]))
base = set(json.load(open("/root/.vp/BASELINE.json"))["stable_pass"])
missing = sorted(base - passed)
print("CONFIRM: existing suite with patch: %d/%d baseline tests pass" % (len(base & passed), len(base)))
for k in missing[:10]: print("   not passing:", k)
sys.exit(1 if missing else 0)
PY
SUITE=$?
git checkout -q go.sum 2>/dev/null
if [ "$SRC" != "-" ]; then mkdir -p "$(dirname "$DST")"; cp -r "$SEED/$SRC" "$DST"; fi
echo "--- demo WITH patch"; (eval "$CMD") > "$WT/.demo_with.log" 2>&1; WITH=$?; tail -5 "$WT/.demo_with.log"
git checkout -q -- . ; 
echo "--- demo WITHOUT patch"; (eval "$CMD") > "$WT/.demo_without.log" 2>&1; WITHOUT=$?; tail -3 "$WT/.demo_without.log"
echo "CONFIRM: suite_rc=$SUITE demo_with_patch_rc=$WITH demo_without_patch_rc=$WITHOUT"
if [ $SUITE -eq 0 ] && [ $WITH -ne 0 ] && [ $WITHOUT -eq 0 ]; then echo "CONFIRM: OK"; exit 0; fi
echo "CONFIRM: NOT CONFIRMED"; exit 1
