#!/bin/bash
# seed_sweep.sh [parallel]: runs every stored seeded change against its property's quick check in a
# scratch worktree of /repo's HEAD and prints one line per seed (rc=1 caught, rc=0 missed, rc=2 no verdict).
PAR=${1:-3}
mkdir -p /tmp/sweep
ls -d /verif/seeded/*/ | xargs -n1 basename | xargs -P $PAR -I{} sh -c 'prop=$(echo {} | cut -d- -f1); /verif/tools/seed_check_wt.sh /verif/seeded/{}/patch.diff $prop quick > /tmp/sweep/{}.log 2>&1; echo "{} rc=$? $(grep -c "^VIOLATION" /tmp/sweep/{}.log) $(grep -m1 "does not apply" /tmp/sweep/{}.log)"'
