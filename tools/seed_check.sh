#!/bin/bash
# Applies a seeded patch to /repo, runs the property's check, reverts. seed_check.sh <patch> <prop> [quick|thorough]
set -u
PATCH=$1; PROP=$2; TIER=${3:-quick}
cd /repo || exit 2
if [ -n "$(git status --porcelain)" ]; then echo "/repo not clean"; git status --short; exit 2; fi
git apply "$PATCH" || { echo "patch does not apply"; exit 2; }
cd /verif && ./check run "$PROP" "$TIER"; RC=$?
git -C /repo checkout -- . ; git -C /repo status --porcelain
rm -f /verif/replays/$PROP/found-*.json.keep 2>/dev/null
echo "SEEDCHECK prop=$PROP tier=$TIER rc=$RC"
exit $RC
