#!/usr/bin/env python3
"""Stores a confirmed seeded change under /verif/seeded/<name>/ : seed_store.py <name> <prop> <seed-dir> <needs> <demo-cmd> <caught-by> <confirm-log>"""
import json, os, shutil, sys
name, prop, src, needs, democmd, caught, log = sys.argv[1:8]
dst = os.path.join('/verif/seeded', name)
if os.path.exists(dst):
    shutil.rmtree(dst)
os.makedirs(dst)
shutil.copy(os.path.join(src, 'patch.diff'), dst)
if os.path.exists(os.path.join(src, 'NOTES.md')):
    shutil.copy(os.path.join(src, 'NOTES.md'), dst)
shutil.copytree(os.path.join(src, 'demo'), os.path.join(dst, 'demo'))
# keep go files out of the way of any tooling walking /verif: rename *.go -> *.go.txt inside demo
for root, _, files in os.walk(os.path.join(dst, 'demo')):
    for f in files:
        if f.endswith('.go') or f in ('go.mod', 'go.sum'):
            os.rename(os.path.join(root, f), os.path.join(root, f + '.txt'))
confirm = [l.strip() for l in open(log, errors='replace') if l.startswith('CONFIRM:')]
meta = {
    "property": prop,
    "breaks": open(os.path.join(src, 'NOTES.md')).read().split('\n\n')[0][:600] if os.path.exists(os.path.join(src, 'NOTES.md')) else "",
    "needs_to_manifest": needs,
    "demo": {"command_in_worktree": democmd, "note": "demo sources are stored with a .txt suffix; strip it when copying into a worktree"},
    "confirmed_in_scratch_worktree": confirm,
    "what_i_ran": ["tools/seed_confirm.sh (existing suite with patch vs BASELINE.json, demo with and without patch)", "tools/seed_check.sh <patch> %s quick (git apply to /repo, ./check run, git checkout)" % prop],
    "detected_by": caught,
    "origin": "independent sub-agent given only the property text and its own worktree",
}
json.dump(meta, open(os.path.join(dst, 'meta.json'), 'w'), indent=1)
print("stored", dst)
