#!/usr/bin/env python3
"""Round-b prompt: as seed_prompt.py plus a hint which mechanism an earlier planted defect already used."""
import json, subprocess, sys
pid, wt = sys.argv[1], sys.argv[2]
base = subprocess.check_output([sys.executable, '/verif/tools/seed_prompt.py', pid, wt]).decode()
avoid = {
 "C01": "a hand-written replacement of the HTML escaper that mishandles truncated UTF-8",
 "C02": "the Go expression scanner treating '{' after ']' as the start of a children block",
 "C03": "the script parser's backslash-escape handling inside backtick literals",
 "C04": "tolerating whitespace/control characters in front of the scheme in templ.URL",
 "C05": "the per-item 'found' flag in the background-image sanitiser",
 "C06": "the end column of statement expressions being advanced per rune instead of per byte",
 "C07": "trimming a string expression's text in the generator before it is mapped",
 "C08": "which ampersands the formatter escapes in constant attribute values",
 "C09": "choosing the single-line or multi-line route for expression attributes from the untrimmed text",
 "C10": "runtime.Buffer adopting the caller's bufio.Writer in Reset",
 "C11": "releasing the pooled byte buffer twice in the buffered handler",
 "C12": "deferring the registration of script names in RenderScriptItems until after the write",
 "C13": "emitting the ClearChildren after a block call only when a sibling node follows",
 "C14": "runtime.Buffer adopting the caller's bufio.Writer in Reset",
 "C15": "a shared generator-options slice with spare capacity appended to by several workers",
 "C16": "reading the development text file with a bufio.Scanner (64 KiB line limit)",
 "C17": "a cached line-length table that the whole-document fast path does not invalidate",
 "C18": "recycling the per-call response channel of jsonrpc2 Conn.Call",
 "C19": "decrementing the sse client counter that is also used as the registration key",
 "C20": "taking the proxy's output buffer from a sync.Pool and releasing it before it is copied",
}
hint = f"\n\nNote: an earlier volunteer already planted a defect based on this mechanism: {avoid[pid]}. Choose a DIFFERENT mechanism and a different part of the code, and a different kind of trigger, so that the two defects are independent.\n"
print(base + hint)
