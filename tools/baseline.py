#!/usr/bin/env python3
"""Runs the repository's pinned test suite (guard off) and compares with /root/.vp/BASELINE.json."""
import json, os, subprocess, sys
env = dict(os.environ, GOFLAGS="-mod=mod", GOPROXY="off", GOSUMDB="off", GOTOOLCHAIN="local")
passed, failed = set(), set()
for m in [".", "runtime/fuzzing"]:
    p = subprocess.run(["go", "test", "-json", "-vet=off", "-count=1", "-timeout", "25m", "./..."], cwd=os.path.join("/repo", m),
                       env=env, stdout=subprocess.PIPE, stderr=subprocess.DEVNULL, text=True)
    for line in p.stdout.splitlines():
        try:
            e = json.loads(line)
        except Exception:
            continue
        if e.get("Test") and e.get("Action") in ("pass", "fail"):
            k = "%s::%s" % (e["Package"], e["Test"])
            (passed if e["Action"] == "pass" else failed).add(k)
base = set(json.load(open("/root/.vp/BASELINE.json"))["stable_pass"])
missing = sorted(base - passed)
print("baseline tests: %d, passed now: %d, baseline tests not passing now: %d" % (len(base), len(passed & base), len(missing)))
for k in missing[:40]:
    print("  NOT PASSING:", k, "(failed)" if k in failed else "(not run)")
subprocess.run(["git", "-C", "/repo", "checkout", "go.sum"])
sys.exit(1 if missing else 0)
