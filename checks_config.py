"""Per-property configuration of the checks (read by ./check)."""

def tiers(q_checks, t_checks, q_timeout=900, t_timeout=3000, shards=8, **kw):
    d = {
        "quick": {"rapid_checks": q_checks, "timeout": q_timeout},
        "thorough": {"rapid_checks": t_checks, "timeout": t_timeout, "shards": shards},
    }
    for k, v in kw.items():
        tier, key = k.split("_", 1)
        d[{"q": "quick", "t": "thorough"}[tier]][key] = v
    return d

CHECKS = {
    "C17": {
        "pkg": "./checks/c17",
        "level": "exploration",
        "assumptions": [
            "columns are byte offsets at rune boundaries (the server's own unit); UTF-16 column negotiation is outside the statement",
            "LSP clients never send a range whose start is after its end",
        ],
        **tiers(3000, 60000),
    },
}
