"""Per-property configuration of the checks (read by ./check)."""

def tiers(q_checks, t_checks, q_timeout=900, t_timeout=3000, shards=8, **kw):
    d = {
        "quick": {"rapid_checks": q_checks, "timeout": q_timeout},
        "thorough": {"rapid_checks": t_checks, "timeout": t_timeout, "shards": shards},
    }
    for k, v in kw.items():
        tier, key = k.split("_", 1)
        d[{"q": "quick", "t": "thorough"}[tier]][key] = v
    return d

CHECKS = {
    "C01": {
        "pkg": "./checks/c01",
        "level": "exploration",
        "assumptions": [
            "HTML5 tokenizer = golang.org/x/net/html Tokenizer; its CR/CRLF->LF and RCDATA NUL->U+FFFD normalisations are applied to the expected value",
            "for style and href/action sinks the expected value is the sanitiser's own return value (their policy is C04/C05)",
            "sinks are the fixtures in harness/fx/sinks.templ (41 placements of the quantifier's sink kinds) generated with /repo's generator at check time",
        ],
        **tiers(20000, 200000),
    },
    "C04": {
        "pkg": "./checks/c04",
        "level": "exploration",
        "assumptions": [
            "a browser's scheme detection = WHATWG URL scheme-start/scheme states after stripping leading/trailing C0/space and removing TAB/LF/CR (own implementation in oracle/urlscheme)",
            "the oracle is one-directional as the statement is: over-rejection by the sanitiser is allowed",
            "mixed-case HREF= and href supplied through a spread map are outside the statement (observations only)",
        ],
        **tiers(20000, 300000),
    },
    "C05": {
        "pkg": "./checks/c05",
        "level": "exploration",
        "assumptions": [
            "a browser's CSS parsing = CSS Syntax Level 3 tokenizer and rule/declaration-list parser (own implementation in oracle/csstok)",
            "templ.SafeCSS / SafeCSSProperty and the plain-string form of style= are declared pass-throughs and outside the statement",
            "a declaration that is not well-formed (e.g. property name '-') is dropped by the browser up to its ';' and affects nothing",
        ],
        **tiers(20000, 200000),
    },
    "C17": {
        "pkg": "./checks/c17",
        "level": "exploration",
        "assumptions": [
            "columns are byte offsets at rune boundaries (the server's own unit); UTF-16 column negotiation is outside the statement",
            "LSP clients never send a range whose start is after its end",
        ],
        **tiers(3000, 60000),
    },
}
