"""Per-property configuration of the checks (read by ./check)."""

def tiers(q_checks, t_checks, q_timeout=900, t_timeout=3000, shards=8, **kw):
    d = {
        "quick": {"rapid_checks": q_checks, "timeout": q_timeout},
        "thorough": {"rapid_checks": t_checks, "timeout": t_timeout, "shards": shards},
    }
    for k, v in kw.items():
        tier, key = k.split("_", 1)
        d[{"q": "quick", "t": "thorough"}[tier]][key] = v
    return d

CHECKS = {
    "C01": {
        "pkg": "./checks/c01",
        "level": "exploration",
        "assumptions": [
            "HTML5 tokenizer = golang.org/x/net/html Tokenizer; its CR/CRLF->LF and RCDATA NUL->U+FFFD normalisations are applied to the expected value",
            "for style and href/action sinks the expected value is the sanitiser's own return value (their policy is C04/C05)",
            "sinks are the fixtures in harness/fx/sinks.templ (placements of the quantifier's sink kinds) generated with /repo's generator at check time",
            "generated surroundings (c01.programs) compare markup tokens (tags, attribute names and values) with tgen's reference interpreter; text runs in generated surroundings are compared by c02.renders for valid UTF-8 only",
        ],
        "quick": {"timeout": 900, "runs": [{"run": "^TestProp(Sinks|AllScalars|Constants)$", "rapid_checks": 20000}, {"run": "^TestPropPrograms$", "rapid_checks": 3}, {"run": "^TestPropNested$", "rapid_checks": 300}]},
        "thorough": {"timeout": 3000, "shards": 8, "runs": [{"run": "^TestProp(Sinks|AllScalars|Constants)$", "rapid_checks": 200000}, {"run": "^TestPropPrograms$", "rapid_checks": 12}, {"run": "^TestPropNested$", "rapid_checks": 4000}]},
    },
    "C02": {
        "pkg": "./checks/c02",
        "level": "exploration",
        "assumptions": [
            "programs come from the tgen grammar (harness/tgen): its Go expression language is a small typed one so that the reference interpreter is exact; constructs outside it are not covered",
            "a template that templ generate rejects (parse, generate or gofmt error) is outside the statement's domain; rejections are counted as generator health",
            "whitespace oracle = the statement's: none invented (output whitespace only where the source has some), separation kept between adjacent inline content (sibling tier and across control-flow joints); pairs across comments, raw Go, calls, block elements and loop iterations are don't-care",
            "inline element = inline both in HTML and in templ's classification (conservative list)",
        ],
        "quick": {"timeout": 900, "runs": [{"run": "^TestPropCompiles$", "rapid_checks": 3000}, {"run": "^TestPropLayouts$", "rapid_checks": 1}, {"run": "^TestPropDeep$", "rapid_checks": 1}, {"run": "^TestPropRenders$", "rapid_checks": 12}]},
        "thorough": {"timeout": 3400, "shards": 12, "runs": [{"run": "^TestPropCompiles$", "rapid_checks": 30000}, {"run": "^TestProp(Layouts|Deep)$", "rapid_checks": 1}, {"run": "^TestPropRenders$", "rapid_checks": 50}]},
    },
    "C03": {
        "pkg": "./checks/c03",
        "level": "exploration",
        "assumptions": [
            "JavaScript semantics = V8 (rogchap.com/v8go v0.9.0) evaluating each document's script elements and then its handler attributes in one context",
            "emitted bytes are decoded to UTF-8 with per-byte U+FFFD substitution before evaluation, as a browser's decoder does",
            "NaN/Inf and channels have no JSON encoding and are not generated; templ.JSExpression is a documented raw pass-through and not generated",
            "function names given to JSFuncCall are the author's input: only 'cannot smuggle code, cannot break markup' is required of odd names",
        ],
        "quick": {"timeout": 900, "runs": [{"run": "^TestProp(Positions|AllScalars)$", "rapid_checks": 10000}, {"run": "^TestPropScripts$", "rapid_checks": 25}]},
        "thorough": {"timeout": 3400, "shards": 16, "runs": [{"run": "^TestProp(Positions|AllScalars)$", "rapid_checks": 100000}, {"run": "^TestPropScripts$", "rapid_checks": 150}]},
    },
    "C04": {
        "pkg": "./checks/c04",
        "level": "exploration",
        "assumptions": [
            "a browser's scheme detection = WHATWG URL scheme-start/scheme states after stripping leading/trailing C0/space and removing TAB/LF/CR (own implementation in oracle/urlscheme)",
            "the oracle is one-directional as the statement is: over-rejection by the sanitiser is allowed",
            "mixed-case HREF= and href supplied through a spread map are outside the statement (observations only)",
        ],
        **tiers(20000, 300000),
    },
    "C05": {
        "pkg": "./checks/c05",
        "level": "exploration",
        "assumptions": [
            "a browser's CSS parsing = CSS Syntax Level 3 tokenizer and rule/declaration-list parser (own implementation in oracle/csstok)",
            "templ.SafeCSS / SafeCSSProperty and the plain-string form of style= are declared pass-throughs and outside the statement",
            "a declaration that is not well-formed (e.g. property name '-') is dropped by the browser up to its ';' and affects nothing",
        ],
        **tiers(20000, 200000),
    },
    "C06": {
        "pkg": "./checks/c06",
        "level": "exploration",
        "assumptions": [
            "'promptly' = within 10 s for inputs up to 16 KiB (typical parse times are milliseconds)",
            "columns are byte columns, lines 0-based (the parser's own convention)",
            "the parser may include the padding inside { } in an expression's text; whitespace-only expressions are not Go expressions",
        ],
        "quick": {"timeout": 900, "runs": [{"run": "^TestProp(Seeds|Truncations|Prefixes|Mutations|Generated|GoShaped)$", "rapid_checks": 5000}, {"run": "^TestPropLayouts$", "rapid_checks": 1}, {"run": "^TestPropDeep$", "rapid_checks": 1}]},
        "thorough": {"timeout": 3400, "shards": 16, "runs": [{"run": "^TestProp(Seeds|Truncations|Prefixes|Mutations|Generated|GoShaped)$", "rapid_checks": 60000}, {"run": "^TestProp(Layouts|Deep)$", "rapid_checks": 1}],
                     "fuzz": [{"target": "FuzzParse", "time": "300s", "hard_timeout": 1200}]},
    },
    "C07": {
        "pkg": "./checks/c07",
        "level": "exploration",
        "assumptions": [
            "positions are (0-based line, byte column) as templ's own convention; positions inside a multi-byte character are not addressable and not checked",
            "the map is checked against the generator's raw output (what the language server uses), not the gofmt-ed file",
            "whitespace-only expressions are skipped by the generator by design; script template names/parameters become string constants and are not mapped",
        ],
        "quick": {"timeout": 900, "runs": [{"run": "^TestProp(Seeds|Generated)$", "rapid_checks": 6000}, {"run": "^TestPropLayouts$", "rapid_checks": 1}, {"run": "^TestPropDeep$", "rapid_checks": 1}]},
        "thorough": {"timeout": 3400, "shards": 16, "runs": [{"run": "^TestProp(Seeds|Generated)$", "rapid_checks": 80000}, {"run": "^TestProp(Layouts|Deep)$", "rapid_checks": 1}]},
    },
    "C08": {
        "pkg": "./checks/c08",
        "level": "exploration",
        "assumptions": [
            "fmt(x) = ParseString + TemplateFile.Write (what `templ fmt` does on stdin)",
            "'the same program' = equal Go token streams after gofmt on both sides: comments, semicolons and trailing commas dropped, templ.Error Line/Col masked; nothing else is masked",
            "whitespace mutations are applied to template bodies only (not to the package clause / imports) and only spellings that templ generate still accepts are judged",
        ],
        "quick": {"timeout": 900, "runs": [{"run": "^TestProp(Seeds|Generated|WhitespaceMutations)$", "rapid_checks": 4000}, {"run": "^TestPropOneLiners$", "rapid_checks": 1}, {"run": "^TestPropLayouts$", "rapid_checks": 1}, {"run": "^TestPropDeep$", "rapid_checks": 1}, {"run": "^TestPropFmtCmd$", "rapid_checks": 600}]},
        "thorough": {"timeout": 3400, "shards": 16, "runs": [{"run": "^TestProp(Seeds|Generated|WhitespaceMutations)$", "rapid_checks": 60000}, {"run": "^TestProp(OneLiners|Layouts|Deep)$", "rapid_checks": 1}, {"run": "^TestPropFmtCmd$", "rapid_checks": 6000}]},
    },
    "C09": {
        "pkg": "./checks/c09",
        "level": "exploration",
        "assumptions": [
            "fmt(x) = ParseString + TemplateFile.Write (what `templ fmt` does on stdin)",
            "only inputs that templ generate accepts are judged",
            "the directory code path (fmtcmd.Run on files, with import clean-up) is exercised on tgen programs with generated import blocks; the stdin path is what the other sub-check uses",
        ],
        "quick": {"timeout": 900, "runs": [{"run": "^TestProp(Seeds|Generated|WhitespaceMutations)$", "rapid_checks": 4000}, {"run": "^TestPropOneLiners$", "rapid_checks": 1}, {"run": "^TestPropLayouts$", "rapid_checks": 1}, {"run": "^TestPropDeep$", "rapid_checks": 1}, {"run": "^TestPropFmtCmd$", "rapid_checks": 500}]},
        "thorough": {"timeout": 3400, "shards": 16, "runs": [{"run": "^TestProp(Seeds|Generated|WhitespaceMutations)$", "rapid_checks": 60000}, {"run": "^TestProp(OneLiners|Layouts|Deep)$", "rapid_checks": 1}, {"run": "^TestPropFmtCmd$", "rapid_checks": 5000}]},
    },
    "C10": {
        "pkg": "./checks/c10",
        "race": True,
        "level": "fault_enumeration",
        "assumptions": [
            "components are tgen programs (generated code incl. nested calls, child blocks, the component parameter); templ.Join / templ.Flush wrappers are covered by C13's call trees, not here",
            "for an expression fault the received bytes are compared with the document of the same arguments without the fault (the failing call is the only difference)",
            "the templ.Error line must lie inside some (string,error) expression of the file (if several such expressions exist the check does not tell them apart)",
        ],
        "quick": {"timeout": 900, "runs": [{"run": "^TestPropFailStop$", "rapid_checks": 4}, {"run": "^TestProp(FixtureHistories|StyleValues|Blocks)$", "rapid_checks": 3000}]},
        "thorough": {"timeout": 3400, "shards": 12, "runs": [{"run": "^TestPropFailStop$", "rapid_checks": 25}, {"run": "^TestProp(FixtureHistories|StyleValues|Blocks)$", "rapid_checks": 40000}]},
    },
    "C11": {
        "pkg": "./checks/c11",
        "level": "fault_enumeration",
        "assumptions": [
            "document chunks are drawn from an alphabet disjoint from every error text, so 'no document byte in an error response' is decidable from the body alone",
            "an error handler that writes no status gets net/http's default 200; that is 'whatever the error handler writes', not the handler's configured status",
        ],
        **tiers(3000, 60000),
    },
    "C18": {
        "pkg": "./checks/c18",
        "race": True,
        "level": "exploration",
        "assumptions": [
            "the Go scheduler is not controlled: the concurrent part samples schedules under the race detector, it does not enumerate interleavings",
            "an absent params/result member and an explicit null are the same message",
            "declared Content-Length values above 1 MiB are not generated (they only cost allocation time)",
        ],
        "quick": {"rapid_checks": 1500, "timeout": 900},
        "thorough": {"rapid_checks": 20000, "timeout": 3000, "shards": 6,
                     "fuzz": [{"target": "FuzzStreamRead", "time": "240s", "hard_timeout": 900}]},
    },
    "C19": {
        "pkg": "./checks/c19",
        "race": True,
        "level": "exploration",
        "assumptions": [
            "clients are in-process ResponseWriters driven by the plan (a stalled client = a Write that blocks), so no TCP buffering hides a stall",
            "the hazardous 'client unregistered before delivery' schedule is forced through the verif hook; all other interleavings are sampled, not enumerated",
            "order between back-to-back broadcasts is not part of the statement (each broadcast is delivered by its own goroutine)",
        ],
        "quick": {"timeout": 900, "runs": [{"run": "^TestPropChurn$", "rapid_checks": 400}, {"run": "^TestPropRealConnections$", "rapid_checks": 1}]},
        "thorough": {"timeout": 3000, "shards": 8, "runs": [{"run": "^TestPropChurn$", "rapid_checks": 4000}, {"run": "^TestPropRealConnections$", "rapid_checks": 1}]},
    },
    "C17": {
        "pkg": "./checks/c17",
        "level": "exploration",
        "assumptions": [
            "columns are byte offsets at rune boundaries (the server's own unit); UTF-16 column negotiation is outside the statement",
            "LSP clients never send a range whose start is after its end",
        ],
        "quick": {"timeout": 900, "runs": [{"run": "^TestProp(Exhaustive|Sequences|Server)$", "rapid_checks": 3000}, {"run": "^TestPropWire$", "rapid_checks": 400}]},
        "thorough": {"timeout": 3000, "shards": 8, "runs": [{"run": "^TestProp(Exhaustive|Sequences|Server)$", "rapid_checks": 60000}, {"run": "^TestPropWire$", "rapid_checks": 5000}]},
    },
    "C20": {
        "pkg": "./checks/c20",
        "level": "exploration",
        "assumptions": [
            "documents are generated well-formed from a content-model-respecting grammar so that parse(render(parse(x))) is stable; arbitrary tag soup is not in the statement",
            "the DOM is obtained with golang.org/x/net/html on both sides (original and proxied result)",
            "when the browser sends no Accept-Encoding, Go's HTTP client inside the proxy may transparently gunzip; the client then correctly receives an identity body without Content-Encoding",
        ],
        "quick": {"rapid_checks": 2000, "timeout": 900},
        "thorough": {"rapid_checks": 8000, "timeout": 3400, "shards": 8},
    },
    "C12": {
        "pkg": "./checks/c12",
        "level": "exploration",
        "assumptions": [
            "'used' follows the statement: a definition emitted for an item of a class expression that ends up disabled is allowed (at most once, before any use)",
            "script calls are evaluated in V8: all script elements in document order, then every handler attribute in document order",
            "a shared context is one that was initialised (templ.InitializeContext or the CSS middleware) before rendering; an uninitialised context.Background() gives every render its own state by design",
        ],
        "quick": {"timeout": 900, "runs": [{"run": "^TestPropHistories$", "rapid_checks": 3000}, {"run": "^TestPropNested$", "rapid_checks": 150}, {"run": "^TestPropBare$", "rapid_checks": 1500}]},
        "thorough": {"timeout": 3000, "shards": 8, "runs": [{"run": "^TestPropHistories$", "rapid_checks": 60000}, {"run": "^TestPropNested$", "rapid_checks": 2000}, {"run": "^TestPropBare$", "rapid_checks": 20000}]},
    },
    "C13": {
        "pkg": "./checks/c13",
        "level": "exploration",
        "assumptions": [
            "hand-written wrapper components follow the documented pattern (GetChildren then ClearChildren); templ.Join is only called without a block (who would get the block is not specified)",
            "markers are <b>mN</b> elements and the comparison ignores whitespace (whitespace is C02's business)",
            "a once handle created with WithComponent renders that component and ignores the call's block",
        ],
        "quick": {"rapid_checks": 24, "timeout": 900},
        "thorough": {"rapid_checks": 100, "timeout": 3000, "shards": 8},
    },
    "C14": {
        "pkg": "./checks/c14",
        "race": True,
        "level": "exploration",
        "assumptions": [
            "the Go scheduler is not controlled: plans vary goroutine counts, writer pacing (yield points, chunking) and GOMAXPROCS, and the race detector watches every execution; no claim about all interleavings",
            "components are the compiled fixtures of harness/fx (in-process part) and tgen programs without tick() (development-mode part)",
        ],
        "quick": {"timeout": 900, "runs": [{"run": "^TestPropConcurrent$", "rapid_checks": 400}, {"run": "^TestPropDevModeConcurrent$", "rapid_checks": 6}, {"run": "^TestPropFirstUse$", "rapid_checks": 1}]},
        "thorough": {"timeout": 3400, "shards": 8, "runs": [{"run": "^TestPropConcurrent$", "rapid_checks": 6000}, {"run": "^TestPropDevModeConcurrent$", "rapid_checks": 40}, {"run": "^TestPropFirstUse$", "rapid_checks": 1}]},
    },
    "C15": {
        "pkg": "./checks/c15",
        "race": True,
        "level": "exploration",
        "assumptions": [
            "the reference for 'the generation of that file alone' is /repo's own parser+generator+go/format applied to the single file with its root-relative name",
            "the root directory's own name is kept non-skippable; symlinks and watch mode are outside the statement",
            "goroutine schedules are sampled (worker count, GOMAXPROCS), not enumerated",
        ],
        "quick": {"rapid_checks": 300, "timeout": 900},
        "thorough": {"rapid_checks": 3000, "timeout": 3000, "shards": 8},
    },
    "C16": {
        "pkg": "./checks/c16",
        "level": "exploration",
        "assumptions": [
            "the development text files and _templ.go files are produced by generatecmd.FSEventHandler in development mode with explicit, advancing modification times - the code path of `templ generate --watch` without the file-system watcher itself",
            "for the classification clause 'the compiled program reading the new text file renders the edited template' is decided by token-stream equality of the last compiled Go and the new Go with only WriteString literals and error positions masked (by construction of development mode that program is then the new one)",
            "a version that templ generate rejects ends an edit sequence",
        ],
        "quick": {"timeout": 900, "runs": [{"run": "^TestPropDevMode$", "rapid_checks": 6}, {"run": "^TestPropEdits$", "rapid_checks": 1200}, {"run": "^TestPropSessions$", "rapid_checks": 3}]},
        "thorough": {"timeout": 3400, "shards": 12, "runs": [{"run": "^TestPropDevMode$", "rapid_checks": 30}, {"run": "^TestPropEdits$", "rapid_checks": 20000}, {"run": "^TestPropSessions$", "rapid_checks": 6}]},
    },
}
