#!/usr/bin/env python3
"""Regenerates MANIFEST.json from checks_config.py + manifest_text.py (level texts)."""
import json, os, sys
ROOT = os.path.dirname(os.path.abspath(__file__))
sys.path.insert(0, ROOT)
from checks_config import CHECKS
from manifest_text import TEXT, NOT_APPLICABLE, HOOK_COMMITS

ALL = ["C%02d" % i for i in range(1, 21)]
checks = []
for pid in ALL:
    if pid not in CHECKS:
        continue
    t = TEXT[pid]
    checks.append({
        "property_id": pid,
        "quick_cmd": "./check run %s quick" % pid,
        "thorough_cmd": "./check run %s thorough" % pid,
        "evidence_file": "/verif/evidence/%s.json" % pid,
        "replay_cmd_template": "./check replay {path}",
        "engine": "rapid-harness",
        "level_claimed": {"category": CHECKS[pid]["level"], "text": t["level"], "design_ref": "DESIGN.md section 3, " + pid},
        "level_note": t["note"],
        "technique": t["technique"],
    })
na = [{"property_id": p, "reason": NOT_APPLICABLE.get(p, "check not built yet in this session; see DESIGN.md section 9 for the order")} for p in ALL if p not in CHECKS]
m = {
    "version": 1,
    "setup_cmd": "./check build",
    "hooks": {
        "guard": "verif",
        "enable": "go build tag: checks compile /repo with -tags verif (go test -c -tags verif in /verif/harness, replace github.com/a-h/templ => /repo)",
        "baseline_off_cmd": "for m in . runtime/fuzzing; do (cd /repo/$m && GOFLAGS=-mod=mod GOPROXY=off GOSUMDB=off GOTOOLCHAIN=local go test -json -vet=off -count=1 -timeout 25m ./...); done",
        "source_commits": HOOK_COMMITS,
        "add_only": True,
    },
    "engines": [{
        "name": "rapid-harness",
        "path": "/verif/harness",
        "serves_properties": [c["property_id"] for c in checks],
        "kind_free_text": "Go test packages using pgregory.net/rapid v1.3.0 generators/state machines, bounded exhaustive enumeration and native go fuzzing, each with an independent oracle; driven by /verif/check (python3) which builds against /repo's working tree, replays stored cases, merges evidence",
    }],
    "checks": checks,
    "not_applicable": na,
    "notes": "Every check is property-based testing / fuzzing: generated inputs, explicit oracle, shrunk replay file. Exit 2 from a command means infrastructure trouble (build failure, timeout), never a violation.",
}
json.dump(m, open(os.path.join(ROOT, "MANIFEST.json"), "w"), indent=1)
print("wrote MANIFEST.json with", len(checks), "checks,", len(na), "not applicable")
